//! Observers that live in a freshly spawned process (`vp verify-dir`, `vp run-history`).
use crate::dbx::open_map;
use crate::exec::fnv;
use crate::types::*;
use serde::{Deserialize, Serialize};
use std::collections::BTreeMap;
use std::path::Path;
use std::process::{Command, Stdio};

#[derive(Serialize, Deserialize, Clone, Debug)]
pub struct DirMap {
    pub name: String,
    pub kt: Kt,
    pub params: Params,
    /// hex keys to look up (present and absent)
    pub keys: Vec<String>,
}

#[derive(Serialize, Deserialize, Clone, Debug)]
pub struct VerifyReq {
    pub dir: String,
    pub maps: Vec<DirMap>,
}

#[derive(Serialize, Deserialize, Clone, Debug, PartialEq, Eq)]
pub struct MapDigest {
    pub len: u64,
    pub gets: u64,
    pub present: u64,
    pub iter_n: u64,
    pub iter: u64,
}

#[derive(Serialize, Deserialize, Clone, Debug, PartialEq, Eq)]
pub struct VerifyOut {
    pub maps: Vec<MapDigest>,
}

fn pair_hash(k: &[u8], v: &[u8]) -> u64 {
    fnv(k).rotate_left(17) ^ fnv(v).wrapping_mul(0x9E3779B97F4A7C15)
}

pub fn digest_model(keys: &[Vec<u8>], model: &BTreeMap<Vec<u8>, Vec<u8>>) -> MapDigest {
    let mut gets: u64 = 0;
    let mut present = 0;
    for (i, k) in keys.iter().enumerate() {
        match model.get(k) {
            Some(v) => {
                present += 1;
                gets = gets
                    .wrapping_mul(31)
                    .wrapping_add(pair_hash(k, v) ^ i as u64);
            }
            None => gets = gets.wrapping_mul(31).wrapping_add(0x55 ^ i as u64),
        }
    }
    let mut it: Vec<u64> = model.iter().map(|(k, v)| pair_hash(k, v)).collect();
    it.sort();
    let mut ih: u64 = 0;
    for x in &it {
        ih = ih.wrapping_mul(1099511628211).wrapping_add(*x);
    }
    MapDigest {
        len: model.len() as u64,
        gets,
        present,
        iter_n: it.len() as u64,
        iter: ih,
    }
}

/// child side: open the directory, look at everything through the public API
pub fn verify_dir(req: &VerifyReq) -> Result<VerifyOut, String> {
    let db = abyssiniandb::open_file(&req.dir).map_err(|e| format!("open_file: {e}"))?;
    let mut out = Vec::new();
    for m in &req.maps {
        let mut h = open_map(&db, &m.name, m.kt, &m.params).map_err(|e| format!("open map: {e}"))?;
        let len = h.len().map_err(|e| format!("len: {e}"))?;
        let mut gets: u64 = 0;
        let mut present = 0;
        for (i, kh) in m.keys.iter().enumerate() {
            let k = unhex(kh)?;
            match h.get(&k).map_err(|e| format!("get: {e}"))? {
                Some(v) => {
                    present += 1;
                    gets = gets
                        .wrapping_mul(31)
                        .wrapping_add(pair_hash(&k, &v) ^ i as u64);
                }
                None => gets = gets.wrapping_mul(31).wrapping_add(0x55 ^ i as u64),
            }
        }
        let o = h.iterate(0, None, 0);
        let mut it: Vec<u64> = o
            .items
            .iter()
            .map(|(k, v)| pair_hash(k.as_ref().unwrap(), v.as_ref().unwrap()))
            .collect();
        it.sort();
        let mut ih: u64 = 0;
        for x in &it {
            ih = ih.wrapping_mul(1099511628211).wrapping_add(*x);
        }
        out.push(MapDigest {
            len,
            gets,
            present,
            iter_n: it.len() as u64,
            iter: ih,
        });
    }
    Ok(VerifyOut { maps: out })
}

/// run `exe sub <json-file>` with a time limit; returns stdout's last line parsed
pub fn run_child_json<T: for<'de> Deserialize<'de>>(
    exe: &Path,
    sub: &str,
    req_json: &str,
    scratch: &Path,
    limit_s: u64,
) -> Result<T, String> {
    run_child_json_env(exe, sub, req_json, scratch, limit_s, &[])
}

/// same, with extra environment variables for the child
pub fn run_child_json_env<T: for<'de> Deserialize<'de>>(
    exe: &Path,
    sub: &str,
    req_json: &str,
    scratch: &Path,
    limit_s: u64,
    env: &[(&str, &str)],
) -> Result<T, String> {
    let reqf = scratch.join(format!("child-{}-{}.json", sub, std::process::id()));
    std::fs::write(&reqf, req_json).map_err(|e| format!("write request: {e}"))?;
    let mut cmd = Command::new(exe);
    for (k, v) in env {
        cmd.env(k, v);
    }
    let mut child = cmd
        .arg(sub)
        .arg(&reqf)
        .stdin(Stdio::null())
        .stdout(Stdio::piped())
        .stderr(Stdio::piped())
        .spawn()
        .map_err(|e| format!("spawn: {e}"))?;
    let start = std::time::Instant::now();
    loop {
        match child.try_wait() {
            Ok(Some(_)) => break,
            Ok(None) => {
                if start.elapsed().as_secs() > limit_s {
                    let _ = child.kill();
                    let _ = child.wait();
                    let _ = std::fs::remove_file(&reqf);
                    return Err(format!("child did not finish within {limit_s}s (hang)"));
                }
                std::thread::sleep(std::time::Duration::from_millis(2));
            }
            Err(e) => return Err(format!("wait: {e}")),
        }
    }
    let outp = child.wait_with_output().map_err(|e| format!("output: {e}"))?;
    let _ = std::fs::remove_file(&reqf);
    let so = String::from_utf8_lossy(&outp.stdout).to_string();
    let se = String::from_utf8_lossy(&outp.stderr).to_string();
    if !outp.status.success() {
        let tail: String = se.lines().rev().take(3).collect::<Vec<_>>().join(" | ");
        return Err(format!("child exited with {:?}: {} {}", outp.status, so.trim(), tail));
    }
    let line = so.lines().last().unwrap_or("");
    serde_json::from_str::<T>(line).map_err(|e| format!("child output unparsable: {e}: {line}"))
}

pub fn run_verify_child(exe: &Path, req: &VerifyReq, scratch: &Path) -> Result<VerifyOut, String> {
    let parent = scratch.parent().unwrap_or(scratch);
    run_child_json(exe, "verify-dir", &serde_json::to_string(req).unwrap(), parent, 120)
}

/// the verifying child runs with the misaligning allocator (key buffers at addresses 8n+1)
pub fn run_verify_child_misaligned(exe: &Path, req: &VerifyReq, scratch: &Path) -> Result<VerifyOut, String> {
    let parent = scratch.parent().unwrap_or(scratch);
    run_child_json_env(exe, "verify-dir", &serde_json::to_string(req).unwrap(), parent, 120, &[("VP_MISALIGN", "1")])
}
