//! proptest strategies for keys, values, parameters and call histories.
use crate::decoder::{bucket_of, vu64_encode, CLASSES};
use crate::types::*;
use proptest::collection::vec;
use proptest::prelude::*;
use proptest::strategy::BoxedStrategy;

#[derive(Clone, Copy, Debug, PartialEq, Eq)]
pub enum ValProfile {
    /// <= 300 bytes, class edges
    Small,
    /// <= ~20000 bytes, class edges, large list sizes, 4 KiB multiples
    Mixed,
    /// Mixed + around 128 KiB and 1 MiB
    Big,
    /// biased to the shared large list (1024..20000)
    LargeList,
}

fn edge_lengths_small() -> Vec<u32> {
    // value record = size field(1) + len field(1 or 2) + len; slot classes 16..1024
    let mut v = vec![0u32, 1, 2, 3];
    for &c in CLASSES.iter() {
        for d in 0..6u32 {
            if c > d {
                v.push(c - d);
            }
        }
        v.push(c + 1);
    }
    v.sort();
    v.dedup();
    v
}

fn edge_lengths_large() -> Vec<u32> {
    let mut v = Vec::new();
    for m in [8u32, 9, 10, 12, 16, 24, 31, 32, 33, 40, 64, 100, 127, 128, 129, 150] {
        for d in 0..6u32 {
            v.push(m * 128 - d);
        }
        v.push(m * 128 + 1);
    }
    for j in 1..=5u32 {
        for d in [-2i32, -1, 0, 1, 2] {
            v.push((4096 * j as i32 + d) as u32);
        }
    }
    v.sort();
    v.dedup();
    v
}

fn edge_lengths_big() -> Vec<u32> {
    let mut v = Vec::new();
    // powers of two up to 64 KiB (chunk multiples of the 4 KiB value buffer)
    for k in 13..=16u32 {
        for d in [-2i32, -1, 0, 1] {
            v.push(((1i32 << k) + d) as u32);
        }
    }
    for base in [131072u32, 262144, 1048576] {
        for d in [-5i32, -4, -3, -2, -1, 0, 1, 2] {
            v.push((base as i32 + d) as u32);
        }
    }
    // lengths whose vu64 code has 4 bytes (>= 2 MiB) and the 16 MiB bound of the property
    for base in [2097152u32, 3 << 20, 4 << 20, 16 << 20] {
        for d in [-4i32, -3, -1, 0, 1] {
            v.push((base as i32 + d) as u32);
        }
    }
    v
}

pub fn val_len_strategy(p: ValProfile) -> BoxedStrategy<u32> {
    let small = edge_lengths_small();
    let small_ns: Vec<u32> = small.iter().copied().filter(|&x| x <= 300).collect();
    let large = edge_lengths_large();
    let big = edge_lengths_big();
    match p {
        ValProfile::Small => prop_oneof![
            3 => proptest::sample::select(small_ns),
            3 => 0u32..=300,
            1 => 0u32..=16,
        ]
        .boxed(),
        ValProfile::Mixed => prop_oneof![
            4 => proptest::sample::select(small),
            4 => 0u32..=700,
            2 => proptest::sample::select(large),
            1 => 700u32..=20000,
        ]
        .boxed(),
        ValProfile::Big => prop_oneof![
            4 => proptest::sample::select(small),
            4 => 0u32..=700,
            3 => proptest::sample::select(large),
            1 => 700u32..=20000,
            1 => proptest::sample::select(big),
        ]
        .boxed(),
        ValProfile::LargeList => prop_oneof![
            2 => proptest::sample::select(small),
            2 => 0u32..=700,
            5 => proptest::sample::select(large.into_iter().filter(|&x| x <= 20000).collect::<Vec<_>>()),
            3 => 1000u32..=20000,
        ]
        .boxed(),
    }
}

pub fn val_strategy(p: ValProfile) -> BoxedStrategy<Val> {
    // one value in eight has particular content (all zero, all 0xFF, leading byte order mark,
    // prefix-stable stream, repeated byte, trailing NULs, valid text, leading 0x00)
    (val_len_strategy(p), 0u32..4, 0u8..64)
        .prop_map(|(len, seed, c)| if c < 8 { Val::C { len, seed, form: c } } else { Val::P { len, seed } })
        .boxed()
}

/// values for the *_string calls: text with multi-byte characters and stray bytes; lengths up
/// to beyond 8 MiB (rarely)
pub fn text_val_strategy(big: bool) -> BoxedStrategy<Val> {
    let mut lens: Vec<u32> = vec![0, 1, 2, 3, 4, 5, 7, 8, 9, 15, 16, 17, 100, 1000, 4095, 4096, 4097, 65535, 65536, 65537];
    let huge: Vec<u32> = vec![1 << 20, (1 << 20) + 1, (4 << 20) - 1, 4 << 20, (4 << 20) + 1, (4 << 20) + 2, 6 << 20, (8 << 20) + 3, (16 << 20) - 7];
    if big {
        lens.extend(huge);
    }
    prop_oneof![
        6 => (0u32..300, 0u32..16).prop_map(|(len, seed)| Val::U { len, seed }),
        2 => (proptest::sample::select(lens), 0u32..16).prop_map(|(len, seed)| Val::U { len, seed }),
        2 => val_strategy(ValProfile::Small),
        1 => (0u32..300, 0u32..16, proptest::sample::select(vec![2u8, 6])).prop_map(|(len, seed, form)| Val::C { len, seed, form }),
    ]
    .boxed()
}

/// integers biased to bit-width / encoding-length boundaries
pub fn int_strategy() -> BoxedStrategy<u64> {
    let mut edges: Vec<u64> = vec![0, 1, 2, u64::MAX, u64::MAX - 1, i64::MAX as u64, i64::MIN as u64];
    for k in 0..64u32 {
        let p = 1u64 << k;
        edges.push(p);
        edges.push(p.wrapping_sub(1));
        edges.push(p.wrapping_add(1));
        edges.push(p.wrapping_neg());
    }
    for j in 1..=9u32 {
        let b = if 7 * j >= 64 { u64::MAX } else { 1u64 << (7 * j) };
        edges.push(b);
        edges.push(b.wrapping_sub(1));
        edges.push(b.wrapping_add(1));
    }
    edges.sort();
    edges.dedup();
    prop_oneof![
        3 => proptest::sample::select(edges),
        2 => any::<u64>(),
        2 => 0u64..2000,
        1 => (0u32..64, any::<u64>()).prop_map(|(s, x)| x >> s),
    ]
    .boxed()
}

#[derive(Clone, Copy, Debug, PartialEq, Eq)]
pub enum KeyProfile {
    /// short keys, lengths on key-slot boundaries
    Short,
    /// + 100..1000 bytes
    Medium,
    /// + rare 4 KiB / 64 KiB
    Long,
}

pub fn key_len_strategy(p: KeyProfile) -> BoxedStrategy<u32> {
    // key record = size(1) + len(1) + key + val offset (2..3) + next (1..3)
    let mut tight: Vec<u32> = (0..=9).collect();
    for &c in CLASSES.iter().take(12) {
        for d in 4..=9u32 {
            if c > d {
                tight.push(c - d);
            }
        }
    }
    tight.sort();
    tight.dedup();
    match p {
        KeyProfile::Short => prop_oneof![
            5 => proptest::sample::select(tight.into_iter().filter(|&x| x <= 60).collect::<Vec<_>>()),
            2 => 0u32..=40,
        ]
        .boxed(),
        KeyProfile::Medium => prop_oneof![
            5 => proptest::sample::select(tight),
            2 => 0u32..=40,
            1 => 100u32..=1000,
        ]
        .boxed(),
        KeyProfile::Long => prop_oneof![
            10 => proptest::sample::select(tight),
            4 => 0u32..=40,
            3 => 100u32..=1000,
            1 => proptest::sample::select(vec![4090u32, 4096, 4097, 65535, 65536, 131070, 131072, 200000]),
        ]
        .boxed(),
    }
}

pub fn key_strategy(kt: Kt, p: KeyProfile) -> BoxedStrategy<Key> {
    match kt {
        Kt::Bytes => (key_len_strategy(p), 0u32..1000)
            .prop_map(|(len, seed)| {
                if len == 0 {
                    Key::B(vec![])
                } else {
                    Key::P { len, seed }
                }
            })
            .boxed(),
        // DbString wraps a byte vector (From<&[u8]> / From<Vec<u8>> are public): mostly ASCII text,
        // every 5th key arbitrary bytes (invalid UTF-8), every 10th multi-byte text
        Kt::String => (key_len_strategy(p), 0u32..1000, 0u8..10)
            .prop_map(|(len, seed, form)| {
                if len == 0 {
                    Key::B(vec![])
                } else if form < 2 && len <= 4096 {
                    Key::P { len, seed }
                } else if form == 2 && len <= 4096 {
                    let chars = ['é', 'ß', '語', '𝄞', 'a', 'Ж'];
                    let raw = pattern_bytes(len as usize, seed);
                    let t: String = raw.iter().map(|b| chars[*b as usize % chars.len()]).collect();
                    Key::B(t.into_bytes())
                } else {
                    Key::S { len, seed }
                }
            })
            .boxed(),
        // DbU64 / DbI64 wrap a byte vector too (From<&[u8]>, From<&str> are public, and the conversion
        // back to an integer pads keys shorter than 8 bytes): one key in twelve is not 8 bytes long
        Kt::U64 | Kt::I64 => (int_strategy(), 0u8..12, 0u32..13)
            .prop_map(|(n, odd, len)| {
                if odd == 0 && len != 8 {
                    if len == 0 {
                        Key::B(vec![])
                    } else {
                        Key::P { len, seed: (n % 1000) as u32 }
                    }
                } else {
                    Key::B(n.to_le_bytes().to_vec())
                }
            })
            .boxed(),
        Kt::Vu64 => int_strategy().prop_map(|n| Key::B(vu64_encode(n))).boxed(),
    }
}

/// distinct keys
pub fn keys_strategy(kt: Kt, p: KeyProfile, n: std::ops::RangeInclusive<usize>) -> BoxedStrategy<Vec<Key>> {
    vec(key_strategy(kt, p), n)
        .prop_map(|ks| dedup_keys(ks))
        .boxed()
}

pub fn dedup_keys(ks: Vec<Key>) -> Vec<Key> {
    let mut seen = std::collections::HashSet::new();
    let mut out = Vec::new();
    for k in ks {
        if seen.insert(k.bytes()) {
            out.push(k);
        }
    }
    if out.is_empty() {
        out.push(Key::B(vec![1]));
    }
    out
}

/// re-seed pattern keys so that they fall into the wanted buckets of an n-bucket table.
/// With one wanted bucket every key is aimed at it; with several, a key may land in any of them
/// (round-robin preference for tables up to 2^16 buckets, where exact aiming is cheap).
pub fn target_keys(ks: Vec<Key>, n: u64, wanted: &[u64]) -> Vec<Key> {
    if wanted.is_empty() || n == 0 {
        return ks;
    }
    let set: std::collections::HashSet<u64> = wanted.iter().map(|w| w % n).collect();
    let exact = wanted.len() == 1 || n <= 4096;
    // total work bound (bytes hashed): long keys x large tables made the search itself take a minute
    let mut budget: u64 = 200_000_000;
    // expected tries: n (exact) or n / |set|; bounded so that generation stays cheap
    let max_tries: u64 = if exact { (n * 24 + 64).min(2_000_000) } else { ((n / set.len() as u64 + 1) * 24).min(2_000_000) };
    let mut out = Vec::new();
    let mut seen = std::collections::HashSet::new();
    if std::env::var_os("VP_DEBUG_TARGET").is_some() {
        eprintln!("target_keys: {} keys, n={n}, wanted={}, exact={exact}, max_tries={max_tries}", ks.len(), wanted.len());
    }
    for (i, k) in ks.into_iter().enumerate() {
        let want = wanted[i % wanted.len()] % n;
        let hit = |b: u64| if exact { b == want } else { set.contains(&b) };
        let nk = match k {
            Key::P { len, seed } if len >= 3 => {
                let mut s = seed;
                let mut found = None;
                for t in 0..max_tries {
                    let cost = len as u64 + 16;
                    if budget < cost {
                        break;
                    }
                    budget -= cost;
                    if t % 4096 == 0 {
                        crate::exec::tick();
                    }
                    let c = Key::P { len, seed: s };
                    if hit(bucket_of(&c.bytes(), n)) {
                        found = Some(c);
                        break;
                    }
                    s = s.wrapping_add(1009);
                }
                found.unwrap_or(Key::P { len, seed })
            }
            Key::S { len, seed } if len >= 3 => {
                let mut s = seed;
                let mut found = None;
                for t in 0..max_tries {
                    let cost = len as u64 + 16;
                    if budget < cost {
                        break;
                    }
                    budget -= cost;
                    if t % 4096 == 0 {
                        crate::exec::tick();
                    }
                    let c = Key::S { len, seed: s };
                    if hit(bucket_of(&c.bytes(), n)) {
                        found = Some(c);
                        break;
                    }
                    s = s.wrapping_add(1009);
                }
                found.unwrap_or(Key::S { len, seed })
            }
            other => other,
        };
        if seen.insert(nk.bytes()) {
            out.push(nk);
        }
    }
    if out.is_empty() {
        out.push(Key::B(vec![1]));
    }
    out
}

/// buckets at the edges of the bitmap scan for an n-bucket table
pub fn edge_buckets(n: u64) -> Vec<u64> {
    let mut v: Vec<i64> = vec![0, 1, 7, 8, 9, 15, 16, 55, 56, 63, 64, 65, 71, 72, 127, 128];
    let nn = n as i64;
    for d in [1, 2, 7, 8, 9, 10, 15, 16, 17, 63, 64, 65, 71, 72, 73] {
        v.push(nn - d);
    }
    // tables whose occupancy bitmap crosses a 128 KiB buffer chunk (>= 2^20 buckets): the bucket
    // groups whose bitmap byte is the last / first byte of a chunk of the table file
    if n >= (1 << 20) {
        let mut kk = 1i64;
        while kk * 131072 * 8 < nn + 131072 * 8 && kk <= 16 {
            // bitmap byte j lies at file offset 128 + 8n + j; 8n is a multiple of the chunk size
            let j = kk * 131072 - 128;
            for d in [-2i64, -1, 0, 1] {
                for b in [0i64, 7] {
                    v.push((j + d) * 8 + b);
                }
            }
            kk += 1;
        }
    }
    let mut o: Vec<u64> = v.into_iter().filter(|&x| x >= 0 && x < nn).map(|x| x as u64).collect();
    o.sort();
    o.dedup();
    o
}

pub const TABLE_SIZES: [u64; 19] = [
    1, 2, 3, 4, 5, 7, 8, 9, 16, 31, 64, 100, 127, 128, 129, 256, 1000, 4096, 65536,
];

pub fn buckets_strategy(allow_lt8: bool, max: u64) -> BoxedStrategy<Buckets> {
    let sizes: Vec<u64> = TABLE_SIZES
        .iter()
        .copied()
        .filter(|&s| s <= max && (allow_lt8 || s >= 8))
        .collect();
    let caps: Vec<u64> = TABLE_SIZES.iter().copied().filter(|&s| s <= max).collect();
    prop_oneof![
        3 => proptest::sample::select(sizes).prop_map(Buckets::BucketsSize),
        1 => proptest::sample::select(caps).prop_map(Buckets::Capacity),
    ]
    .boxed()
}

#[derive(Clone, Copy, Debug, PartialEq, Eq)]
pub enum BufProfile {
    /// the defaults only
    Plain,
    /// all documented settings; PerMille(p<1000) is drawn too and sanitised by the caller (D6b)
    Any,
}

pub fn bufp_strategy(p: BufProfile) -> BoxedStrategy<BufP> {
    match p {
        BufProfile::Plain => Just(BufP::PerMille(1000)).boxed(),
        BufProfile::Any => prop_oneof![
            3 => Just(BufP::PerMille(1000)),
            2 => Just(BufP::Auto),
            1 => Just(BufP::PerMille(2000)),
            1 => proptest::sample::select(vec![1u16, 20, 500, 999]).prop_map(BufP::PerMille),
            3 => proptest::sample::select(vec![0u32, 1, 131072, 262144, 300000, 1048576]).prop_map(BufP::Size),
            1 => proptest::sample::select(vec![16u32 << 20, 255 << 20, 256 << 20, (256 << 20) + 4096, 512 << 20, 1 << 30, 1 << 31, u32::MAX, u32::MAX - 131071]).prop_map(BufP::Size),
        ]
        .boxed(),
    }
}

pub fn params_strategy(bp: BufProfile, allow_lt8: bool, max_buckets: u64) -> BoxedStrategy<Params> {
    match bp {
        BufProfile::Plain => buckets_strategy(allow_lt8, max_buckets)
            .prop_map(Params::plain)
            .boxed(),
        BufProfile::Any => (
            bufp_strategy(bp),
            bufp_strategy(bp),
            bufp_strategy(bp),
            buckets_strategy(allow_lt8, max_buckets),
            any::<bool>(),
        )
            .prop_map(|(val, key, htx, buckets, dflt_val)| Params {
                val: if dflt_val { BufP::Auto } else { val },
                key,
                htx,
                buckets,
            })
            .boxed(),
    }
}

/// upper bounds of the key / value file sizes a history can produce (no reuse assumed)
pub fn size_bounds(keys: &[Key], ops: &[Op]) -> (u64, u64) {
    let maxk = keys.iter().map(|k| k.bytes().len() as u64).max().unwrap_or(0);
    let kslot = ((maxk + 24 + 128) / 128 + 1) * 128;
    let mut kb = 192u64;
    let mut vb = 192u64;
    // every put may allocate a value slot and, through relocation cascades, key slots
    let vslot = |l: usize| ((l as u64 * 3 + 16 + 128) / 128 + 1) * 128;
    for op in ops {
        match op {
            Op::Put { v, .. } | Op::PutStr { v, .. } | Op::Burst { v, .. } => {
                vb += vslot(v.len());
                kb += kslot * 2;
            }
            Op::BulkPut { kvs } | Op::BulkPutStr { kvs } | Op::PutFromIter { kvs } => {
                for (_, v) in kvs {
                    vb += vslot(v.len());
                    kb += kslot * 2;
                }
            }
            Op::PutRel { .. } => {
                let maxv = ops
                    .iter()
                    .map(|op| match op {
                        Op::Put { v, .. } | Op::PutStr { v, .. } | Op::Burst { v, .. } => v.len(),
                        Op::BulkPut { kvs } | Op::BulkPutStr { kvs } | Op::PutFromIter { kvs } => kvs.iter().map(|kv| kv.1.len()).max().unwrap_or(0),
                        _ => 0,
                    })
                    .max()
                    .unwrap_or(0);
                let nrel = ops.iter().filter(|op| matches!(op, Op::PutRel { .. })).count();
                vb += vslot(maxv.max(8192) + 700 * nrel);
                kb += kslot * 2;
            }
            Op::PutFromOwnIter { .. } => {
                let maxv = ops
                    .iter()
                    .map(|op| match op {
                        Op::Put { v, .. } | Op::PutStr { v, .. } | Op::Burst { v, .. } => v.len(),
                        Op::BulkPut { kvs } | Op::BulkPutStr { kvs } | Op::PutFromIter { kvs } => {
                            kvs.iter().map(|kv| kv.1.len()).max().unwrap_or(0)
                        }
                        Op::PutFromOwnIter { .. } => 40,
                        _ => 0,
                    })
                    .fold((0usize, 0usize), |(m, g), l| if l == 40 { (m, g + 40) } else { (m.max(l), g) });
                vb += vslot(maxv.0 + maxv.1) * keys.len() as u64;
                kb += kslot * 2 * keys.len() as u64;
            }
            Op::Del { .. } | Op::DelStr { .. } => kb += kslot,
            Op::BulkDel { ks } | Op::BulkDelStr { ks } => kb += kslot * ks.len() as u64,
            _ => {}
        }
    }
    (kb, vb)
}

/// D6b exclusion: PerMille(p<1000) on a file that may exceed one 128 KiB chunk hangs inside the
/// rabuf dependency (known finding).  Returns the sanitised params and the number of excluded draws.
pub fn sanitize_params(p: Params, key_bound: u64, val_bound: u64) -> (Params, u64) {
    sanitize_params_for(p, key_bound, val_bound, p.buckets)
}

/// `table`: the parameters the table file was created with (reopen keeps the stored table)
pub fn sanitize_params_for(p: Params, key_bound: u64, val_bound: u64, table: Buckets) -> (Params, u64) {
    let mut p = p;
    let mut ex = 0;
    let htx_len = 128 + table.bucket_count() * 8 + table.bucket_count() / 8 + 8;
    let lim = 131072u64;
    if let BufP::PerMille(x) = p.key {
        if x < 1000 && key_bound > lim {
            p.key = BufP::PerMille(1000);
            ex += 1;
        }
    }
    if let BufP::PerMille(x) = p.val {
        if x < 1000 && val_bound > lim {
            p.val = BufP::PerMille(1000);
            ex += 1;
        }
    }
    if let BufP::PerMille(x) = p.htx {
        if x < 1000 && htx_len > lim {
            p.htx = BufP::PerMille(1000);
            ex += 1;
        }
    }
    (p, ex)
}

#[derive(Clone, Debug)]
pub struct Weights {
    pub put: u32,
    pub get: u32,
    pub del: u32,
    pub inc: u32,
    pub len: u32,
    pub is_empty: u32,
    pub strs: u32,
    pub bulk: u32,
    pub iter: u32,
    pub stats: u32,
    pub readfill: u32,
    pub flush: u32,
    pub sync: u32,
    pub dbsync: u32,
    pub handles: u32,
    pub reopen: u32,
    /// per-mille (of the total weight) of bursts of 255..65537 identical puts
    pub burst: u32,
}

impl Weights {
    pub fn basic() -> Weights {
        Weights {
            put: 40,
            get: 20,
            del: 20,
            inc: 5,
            len: 4,
            is_empty: 2,
            strs: 0,
            bulk: 0,
            iter: 0,
            stats: 0,
            readfill: 0,
            flush: 0,
            sync: 0,
            dbsync: 0,
            handles: 0,
            reopen: 0,
            burst: 0,
        }
    }
}

#[derive(Clone, Debug)]
pub struct OpsCfg {
    pub w: Weights,
    pub val: ValProfile,
    pub n_ops: std::ops::RangeInclusive<usize>,
    pub reopen_params: Option<(BufProfile, bool, u64)>,
    pub reopen_child: bool,
    pub max_batch: usize,
    pub n_maps: usize,
}

fn kidx(n: usize) -> BoxedStrategy<u32> {
    (0..n.max(1) as u32).boxed()
}

pub fn op_strategy(cfg: &OpsCfg, n_keys: usize, default_params: Params) -> BoxedStrategy<Op> {
    let w = &cfg.w;
    let vs = val_strategy(cfg.val);
    let mut alts: Vec<(u32, BoxedStrategy<Op>)> = Vec::new();
    let k = || kidx(n_keys);
    if w.put > 0 {
        // where the *_string readers are in play, byte values are sometimes (damaged) UTF-8 text
        let pv: BoxedStrategy<Val> = if w.strs > 0 {
            prop_oneof![4 => vs.clone(), 1 => text_val_strategy(cfg.val == ValProfile::Big)].boxed()
        } else {
            vs.clone()
        };
        alts.push((w.put, (k(), pv).prop_map(|(k, v)| Op::Put { k, v }).boxed()));
        // puts whose value is derived from the stored one (append, truncate, identical, one byte, prepend, doubled)
        alts.push(((w.put / 8).max(1), (k(), 0u8..6, any::<u16>()).prop_map(|(k, mode, n)| Op::PutRel { k, mode, n }).boxed()));
    }
    if w.burst > 0 {
        alts.push((
            w.burst,
            (
                k(),
                val_strategy(ValProfile::Small),
                proptest::sample::select(vec![255u32, 256, 257, 65535, 65536, 65537, 65534, 131072]),
            )
                .prop_map(|(k, v, n)| Op::Burst { k, v, n })
                .boxed(),
        ));
    }
    if w.get > 0 {
        alts.push((w.get, k().prop_map(|k| Op::Get { k }).boxed()));
    }
    if w.del > 0 {
        alts.push((w.del, k().prop_map(|k| Op::Del { k }).boxed()));
    }
    if w.inc > 0 {
        alts.push((w.inc, k().prop_map(|k| Op::Inc { k }).boxed()));
    }
    if w.len > 0 {
        alts.push((w.len, Just(Op::Len).boxed()));
    }
    if w.is_empty > 0 {
        alts.push((w.is_empty, Just(Op::IsEmpty).boxed()));
    }
    if w.strs > 0 {
        alts.push((
            w.strs,
            prop_oneof![
                (k(), text_val_strategy(cfg.val == ValProfile::Big)).prop_map(|(k, v)| Op::PutStr { k, v }),
                k().prop_map(|k| Op::GetStr { k }),
                k().prop_map(|k| Op::DelStr { k }),
            ]
            .boxed(),
        ));
    }
    if w.bulk > 0 {
        let mb = cfg.max_batch.max(1);
        // batch sizes: mostly small, sometimes up to max_batch, rarely (max_batch >= 200) thousands
        let size = move || -> BoxedStrategy<usize> {
            if mb >= 200 {
                prop_oneof![
                    12 => 0usize..=24,
                    6 => 0usize..=mb,
                    1 => 4000usize..=9000,
                ]
                .boxed()
            } else {
                (0usize..=mb).boxed()
            }
        };
        let kk = k();
        let kk2 = k();
        let vs2 = vs.clone();
        let ks = move || {
            let kk = kk.clone();
            size().prop_flat_map(move |n| vec(kk.clone(), n..=n))
        };
        let kvs = move || {
            let kk2 = kk2.clone();
            let vs2 = vs2.clone();
            size().prop_flat_map(move |n| vec((kk2.clone(), vs2.clone()), n..=n))
        };
        let kk3 = k();
        let ts = text_val_strategy(false);
        let kvs_text = move || {
            let kk3 = kk3.clone();
            let ts = ts.clone();
            size().prop_flat_map(move |n| vec((kk3.clone(), ts.clone()), n..=n))
        };
        alts.push((
            w.bulk,
            prop_oneof![
                3 => ks().prop_map(|ks| Op::BulkGet { ks }),
                1 => ks().prop_map(|ks| Op::BulkGetStr { ks }),
                3 => ks().prop_map(|ks| Op::BulkDel { ks }),
                1 => ks().prop_map(|ks| Op::BulkDelStr { ks }),
                3 => kvs().prop_map(|kvs| Op::BulkPut { kvs }),
                2 => kvs_text().prop_map(|kvs| Op::BulkPutStr { kvs }),
                3 => kvs().prop_map(|kvs| Op::PutFromIter { kvs }),
                1 => (0u8..16).prop_map(|t| Op::PutFromOwnIter { t }),
            ]
            .boxed(),
        ));
    }
    if w.iter > 0 {
        alts.push((
            w.iter,
            prop_oneof![
                4 => (0u8..7, proptest::option::weighted(0.3, 0u16..20)).prop_map(|(f, take)| Op::Iter { f, take }),
                1 => (0u8..7, 0u8..5, k()).prop_map(|(f, every, k)| Op::IterMix { f, every, k }),
                1 => (0u8..7, 0u8..6).prop_map(|(f, n)| Op::IterNth { f, n }),
                1 => (0u8..4, 0u8..5).prop_map(|(f, take)| Op::HoldIter { f, take }),
                1 => Just(Op::DropIters),
            ]
            .boxed(),
        ));
    }
    if w.stats > 0 {
        alts.push((w.stats, Just(Op::Stats).boxed()));
    }
    if w.readfill > 0 {
        alts.push((w.readfill, Just(Op::ReadFill).boxed()));
    }
    if w.flush > 0 {
        alts.push((w.flush, Just(Op::Flush).boxed()));
    }
    if w.sync > 0 {
        alts.push((w.sync, prop_oneof![Just(Op::SyncData), Just(Op::SyncAll)].boxed()));
    }
    if w.dbsync > 0 {
        alts.push((w.dbsync, prop_oneof![Just(Op::DbSyncData), Just(Op::DbSyncAll)].boxed()));
    }
    if w.handles > 0 {
        let nm = cfg.n_maps.max(1) as u16;
        alts.push((
            w.handles,
            prop_oneof![
                2 => Just(Op::CloneHandle),
                1 => Just(Op::DropHandle),
                1 => Just(Op::DropAll),
                2 => Just(Op::Reacquire),
                2 => (0u8..32).prop_map(|v| Op::ReacquireP { v }),
                1 => Just(Op::CloneDb),
                1 => prop_oneof![3 => Just(Op::HidePath), 1 => Just(Op::DropDb)],
                4 => (0..nm).prop_map(|m| Op::Use { m }),
            ]
            .boxed(),
        ));
    }
    if w.reopen > 0 {
        let child = cfg.reopen_child;
        let ps: BoxedStrategy<Params> = match cfg.reopen_params {
            Some((bp, lt8, max)) => prop_oneof![
                1 => Just(default_params),
                2 => params_strategy(bp, lt8, max),
            ]
            .boxed(),
            None => Just(default_params).boxed(),
        };
        alts.push((
            w.reopen,
            (ps, any::<bool>(), 0u8..4)
                .prop_map(move |(params, c, order)| Op::Reopen {
                    params,
                    child: child && c,
                    order,
                })
                .boxed(),
        ));
    }
    proptest::strategy::Union::new_weighted(alts).boxed()
}

pub fn ops_strategy(cfg: &OpsCfg, n_keys: usize, default_params: Params) -> BoxedStrategy<Vec<Op>> {
    vec(op_strategy(cfg, n_keys, default_params), cfg.n_ops.clone())
        .prop_map(|mut ops| {
            tame_bursts(&mut ops);
            ops
        })
        .boxed()
}

/// Cost bound for `Burst`: an overwrite in place keeps the slot and zero-fills its tail, so n
/// identical small puts on a key that holds a multi-megabyte slot write n x slot bytes (65536 x 16
/// MiB = 1 TiB: correct, but hours).  A burst whose worst case exceeds 1 GiB of zero-fill is cut
/// down to 255..257 calls (still wraps an 8-bit counter), beyond 4 MiB slots to 2..4 calls.
pub fn tame_bursts(ops: &mut [Op]) {
    let maxv = ops
        .iter()
        .map(|op| match op {
            Op::Put { v, .. } | Op::PutStr { v, .. } | Op::Burst { v, .. } => v.len(),
            Op::BulkPut { kvs } | Op::BulkPutStr { kvs } | Op::PutFromIter { kvs } => kvs.iter().map(|kv| kv.1.len()).max().unwrap_or(0),
            _ => 0,
        })
        .max()
        .unwrap_or(0) as u64
        + 4096;
    for op in ops.iter_mut() {
        if let Op::Burst { n, .. } = op {
            if maxv * (*n as u64) > 1 << 30 {
                *n = if maxv * 257 <= 1 << 30 { 255 + *n % 3 } else { 2 + *n % 3 };
            }
        }
    }
}

/// single-map history generator
#[derive(Clone, Debug)]
pub struct HistCfg {
    pub kts: Vec<Kt>,
    pub key: KeyProfile,
    pub n_keys: std::ops::RangeInclusive<usize>,
    pub bufs: BufProfile,
    pub allow_lt8: bool,
    pub max_buckets: u64,
    pub ops: OpsCfg,
    pub obs: Obs,
    /// probability (percent) of bucket targeting
    pub target_pct: u32,
    /// ops prepended to the generated history (with their own filler keys) that bring the files
    /// into a rarely reached region
    pub prelude: Prelude,
    /// three phases (insert-heavy, delete-heavy, mixed) instead of one stationary mix
    pub phases: bool,
    /// add keys with particular byte patterns (all 0x00, all 0xFF, prefixes of each other)
    pub special_keys: bool,
    /// use the default table (16 Mi buckets, 134 MB sparse table file)
    pub default_table: bool,
    /// use a table of exactly this many buckets (beyond the usual list of sizes)
    pub big_table: Option<u64>,
    /// half way through, every key of the pool (fillers included) is deleted: the map is emptied
    /// completely and then refilled by the second half
    pub empty_mid: bool,
    /// the history ends with the deletion of every key: the final state is an emptied map
    pub empty_end: bool,
}

#[derive(Clone, Copy, Debug, PartialEq, Eq)]
pub enum Prelude {
    None,
    /// filler values (<= 16 MiB each) until the value file holds `val_bytes`, filler keys of
    /// 65000 bytes until the key file holds `key_bytes`
    Inflate { val_bytes: u64, key_bytes: u64 },
    /// n distinct small entries
    ManyEntries(u32),
    /// n entries with values of ~1.1-1.6 KB, every second one deleted again: n/2 slots on the
    /// shared large free list
    ManyLargeFree(u32),
    /// small entries (16-byte key records, 16-byte value records) until BOTH files end `slack`*16
    /// bytes below `bytes`: the next few calls cross the boundary at which the slot-size estimate of
    /// an offset field gets a byte wider (16 KiB), with key records that exactly fill their slots
    NearEnd { bytes: u32, slack: u8 },
}

/// turn a configuration into a "dense chains" one: hundreds of keys in a table of 1..4 buckets
/// (or 8 via Capacity), mostly inserts, so that bucket chains grow far beyond 256 entries
/// one bucket, thousands of keys: a single chain of more than 4096 links
pub fn make_very_dense(cfg: &mut HistCfg) {
    make_very_dense_n(cfg, 8400);
}

/// `n` distinct entries are inserted one after the other into a ONE-bucket table (a random
/// history would leave much of a large pool untouched), then a few hundred random calls follow;
/// the filler keys fill their 16-byte key slot exactly, so a value that moves relocates them
pub fn make_very_dense_n(cfg: &mut HistCfg, n: u32) {
    make_dense(cfg, true);
    cfg.max_buckets = 1;
    cfg.big_table = Some(1);
    cfg.n_keys = 3..=40;
    cfg.prelude = Prelude::ManyEntries(n);
    cfg.ops.n_ops = 100..=600;
    cfg.ops.w.put = 50;
    cfg.ops.w.del = 10;
    cfg.ops.w.get = 25;
    cfg.ops.w.reopen = 0;
    cfg.ops.val = ValProfile::Mixed;
    cfg.obs.decode_every_op = false;
}

pub fn make_dense(cfg: &mut HistCfg, thorough: bool) {
    cfg.allow_lt8 = true;
    cfg.max_buckets = 4;
    cfg.n_keys = if thorough { 260..=1500 } else { 260..=700 };
    cfg.key = KeyProfile::Short;
    cfg.ops.n_ops = if thorough { 700..=4000 } else { 700..=1800 };
    cfg.ops.val = ValProfile::Small;
    cfg.ops.w.put = 70;
    cfg.ops.w.del = 8;
    cfg.ops.w.get = 14;
    cfg.target_pct = 0;
}

fn special_key_set(kt: Kt) -> Vec<Key> {
    let mut v = Vec::new();
    if !matches!(kt, Kt::Bytes | Kt::String) {
        return v;
    }
    for n in [1usize, 2, 7, 8, 9, 16, 17] {
        v.push(Key::B(vec![0u8; n]));
        if kt == Kt::Bytes {
            v.push(Key::B(vec![0xFFu8; n]));
        }
    }
    // prefixes of each other, trailing NUL
    let base = b"prefix-key-0123456789".to_vec();
    for cut in [1usize, 6, 7, 8, 9, 15, 16, 17, 21] {
        v.push(Key::B(base[..cut].to_vec()));
    }
    let mut z = base.clone();
    z.push(0);
    v.push(Key::B(z));
    // families of DIFFERENT keys with the SAME full 64-bit placement hash (constructed with the
    // re-implemented hash: for 16-byte keys the second word can cancel any change of the first)
    for fam in 0..2u64 {
        let w1: u64 = 0x6b65_795f_0000_0000 + fam * 0x0101;
        let w2: u64 = 0x3031_3233_3435_3637 + fam;
        let mix = |mut x: u64| -> u64 {
            x ^= x >> 12;
            x ^= x << 25;
            x ^= x >> 27;
            x
        };
        let s0 = mix(u64::from_be_bytes(16u64.to_ne_bytes()));
        let target = mix(s0.wrapping_add(w1)).wrapping_add(w2);
        for j in 0..3u64 {
            let w1b = w1 ^ (j * 0x0001_0000_0001);
            let w2b = target.wrapping_sub(mix(s0.wrapping_add(w1b)));
            let mut k = w1b.to_be_bytes().to_vec();
            k.extend_from_slice(&w2b.to_be_bytes());
            v.push(Key::B(k));
        }
    }
    v
}

/// prelude ops + their filler keys (appended to the pool)
fn prelude_ops(p: Prelude, kt: Kt, keys: &mut Vec<Key>) -> Vec<Op> {
    let mut ops = Vec::new();
    let mut filler = |keys: &mut Vec<Key>, i: u32, len: u32| -> u32 {
        let k = match kt {
            Kt::Bytes => Key::P { len, seed: 900_000 + i },
            Kt::String => Key::S { len, seed: 900_000 + i },
            Kt::U64 | Kt::I64 => Key::B((0xF1F1_0000_0000_0000u64 + i as u64 * 0x9E37_79B9).to_le_bytes().to_vec()),
            Kt::Vu64 => Key::B(vu64_encode(0x71F1_0000_0000_0000u64 + i as u64 * 0x9E37_79B9)),
        };
        keys.push(k);
        (keys.len() - 1) as u32
    };
    match p {
        Prelude::None => {}
        Prelude::Inflate { val_bytes, key_bytes } => {
            let mut i = 0u32;
            let mut left = val_bytes;
            while left > 0 {
                let l = left.min(16 * 1024 * 1024 - 4096);
                let k = filler(keys, i, 12);
                ops.push(Op::Put { k, v: Val::P { len: l as u32, seed: i } });
                left -= l;
                i += 1;
            }
            if matches!(kt, Kt::Bytes | Kt::String) {
                let mut left = key_bytes;
                while left > 0 {
                    let l = left.min(65000);
                    let k = filler(keys, i, l.max(20) as u32);
                    ops.push(Op::Put { k, v: Val::P { len: 3, seed: i } });
                    left -= l.min(left);
                    i += 1;
                }
            }
        }
        Prelude::ManyLargeFree(n) => {
            let mut ks = Vec::new();
            // one big slot that ends up buried at the far end of the (LIFO) free list
            let kbig = filler(keys, 999_999, 9);
            ops.push(Op::Put { k: kbig, v: Val::P { len: 6000, seed: 1 } });
            for i in 0..n {
                let k = filler(keys, i, 9);
                ks.push(k);
                ops.push(Op::Put { k, v: Val::P { len: 1100 + (i % 4) * 128, seed: i } });
            }
            ops.push(Op::Del { k: kbig });
            for (i, k) in ks.iter().enumerate() {
                if i % 2 == 0 {
                    ops.push(Op::Del { k: *k });
                }
            }
            // a request only the buried slot can hold
            ops.push(Op::Put { k: kbig, v: Val::P { len: 5000, seed: 2 } });
        }
        Prelude::NearEnd { bytes, slack } => {
            let n = (bytes.saturating_sub(192) / 16).saturating_sub(slack as u32);
            for i in 0..n {
                let k = filler(keys, i, 10);
                ops.push(Op::Put { k, v: Val::P { len: 1, seed: i } });
            }
        }
        Prelude::ManyEntries(n) => {
            for i in 0..n {
                                let k = filler(keys, i, 10);
                ops.push(Op::Put { k, v: Val::P { len: (i % 40) as u32, seed: i } });
            }
        }
    }
    ops
}

/// rarely reached regions shared by several properties: phased workloads, keys with particular
/// byte patterns, files beyond 2 MiB (the offset fields grow from 3 to 4 bytes)
pub fn rare_regions(c: &mut HistCfg, index: u64) {
    c.phases = index % 10 == 4;
    // maps emptied completely: in the middle (then refilled) and at the end
    c.empty_mid = index % 9 == 2;
    c.empty_end = index % 25 == 7;
    if index % 20 == 6 {
        // (6 does not collide with the selectors below: 21, 33, 57, 91 mod 20 are 1, 13, 17, 11)
        // both files end just below 16 KiB, a table of 1-2 buckets, keys that exactly fill their
        // records: the next overwrites relocate key records along the chain (cascades up to the head)
        c.prelude = Prelude::NearEnd { bytes: 16384, slack: (index / 20 % 6) as u8 };
        c.max_buckets = 2;
        c.allow_lt8 = true;
        c.key = KeyProfile::Short;
        c.n_keys = 2..=8;
        c.target_pct = 0;
        c.big_table = None;
        c.default_table = false;
        c.empty_mid = false;
        return;
    }
    c.special_keys = index % 8 == 3;
    if index % 50 == 21 {
        c.prelude = Prelude::Inflate { val_bytes: 2_200_000, key_bytes: 0 };
    } else if index % 200 == 33 {
        c.kts = vec![Kt::Bytes, Kt::String];
        c.prelude = Prelude::Inflate { val_bytes: 0, key_bytes: 2_200_000 };
    } else if index % 200 == 57 {
        // value file beyond 16 MiB: offsets/8 need a 4-byte code
        c.prelude = Prelude::Inflate { val_bytes: 17 * 1024 * 1024, key_bytes: 0 };
    } else if index % 200 == 91 {
        // thousands of slots on the shared large free list
        c.prelude = Prelude::ManyLargeFree(9000);
        c.ops.val = ValProfile::LargeList;
    }
}

pub fn history_strategy(cfg: HistCfg) -> BoxedStrategy<History> {
    let kts = cfg.kts.clone();
    let cfg2 = cfg.clone();
    (
        proptest::sample::select(kts),
        params_strategy(cfg.bufs, cfg.allow_lt8, cfg.max_buckets),
        0u32..100,
        0u32..3,
    )
        .prop_flat_map(move |(kt, params, tdraw, tmode)| {
            let cfg = cfg2.clone();
            let mut params = params;
            if cfg.default_table {
                params.buckets = Buckets::Default;
            }
            if let Some(n) = cfg.big_table {
                params.buckets = Buckets::BucketsSize(n);
            }
            let keys = keys_strategy(kt, cfg.key, cfg.n_keys.clone());
            let cfg3 = cfg.clone();
            keys.prop_flat_map(move |keys| {
                let n = params.buckets.bucket_count();
                let keys = if tdraw < cfg3.target_pct && matches!(kt, Kt::Bytes | Kt::String) {
                    let tmode = if n > 65536 { 0 } else { tmode };
                    let wanted: Vec<u64> = match tmode {
                        0 => edge_buckets(n),
                        1 => vec![n.saturating_sub(9).min(n - 1)],
                        _ => {
                            let e = edge_buckets(n);
                            vec![e[e.len() / 2]]
                        }
                    };
                    target_keys(keys, n, &wanted)
                } else {
                    keys
                };
                let mut keys = keys;
                if cfg3.special_keys {
                    keys.extend(special_key_set(kt));
                    keys = dedup_keys(keys);
                }
                let prelude = cfg3.prelude;
                // the random calls address the prelude's filler entries too (they follow the pool
                // keys): old, deep, tightly packed records are where relocation bites
                let nk = {
                    let mut tmp = keys.clone();
                    let _ = prelude_ops(prelude, kt, &mut tmp);
                    tmp.len()
                };
                let obs = cfg3.obs.clone();
                let ops_st: BoxedStrategy<Vec<Op>> = if cfg3.phases {
                    // insert-heavy, delete-heavy, mixed
                    let mut a = cfg3.ops.clone();
                    a.w.put = a.w.put * 3;
                    a.w.del = a.w.del / 4;
                    let mut b = cfg3.ops.clone();
                    b.w.put = b.w.put / 4;
                    b.w.del = b.w.del * 3;
                    (
                        ops_strategy(&a, nk, params),
                        ops_strategy(&b, nk, params),
                        ops_strategy(&cfg3.ops, nk, params),
                    )
                        .prop_map(|(x, y, z)| {
                            let mut v = x;
                            v.extend(y);
                            v.extend(z);
                            v
                        })
                        .boxed()
                } else {
                    ops_strategy(&cfg3.ops, nk, params)
                };
                ops_st.prop_map(move |ops| {
                    let mut keys = keys.clone();
                    let mut all = prelude_ops(prelude, kt, &mut keys);
                    // the last two prelude ops stay observed (the extend-only rule needs the state
                    // before the final request)
                    let quiet = all.len().saturating_sub(2);
                    let mut ops = ops;
                    let del_all = |keys: &Vec<Key>, rot: usize| -> Vec<Op> {
                        let n = keys.len();
                        (0..n).map(|j| Op::Del { k: ((j + rot) % n) as u32 }).collect()
                    };
                    if cfg3.empty_mid && keys.len() <= 400 {
                        let at = ops.len() / 2;
                        let tail = ops.split_off(at);
                        ops.extend(del_all(&keys, at));
                        ops.extend(tail);
                    }
                    if cfg3.empty_end && keys.len() <= 400 {
                        let r = ops.len();
                        ops.extend(del_all(&keys, r));
                    }
                    all.extend(ops);
                    let mut ops = all;
                    tame_bursts(&mut ops);
                    let (kb, vb) = size_bounds(&keys, &ops);
                    let (p, mut ex) = sanitize_params(params, kb, vb);
                    let ops: Vec<Op> = ops
                        .into_iter()
                        .map(|op| match op {
                            Op::Reopen { params, child, order } => {
                                let (p2, e2) = sanitize_params_for(params, kb, vb, p.buckets);
                                ex += e2;
                                Op::Reopen {
                                    params: p2,
                                    child,
                                    order,
                                }
                            }
                            o => o,
                        })
                        .collect();
                    History {
                        maps: vec![MapSpec {
                            name: "m".to_string(),
                            kt,
                            params: p,
                            keys: keys.clone(),
                late: false,
            }],
                        ops,
                        obs: obs.clone(),
                        excluded: ex,
                        quiet_prefix: quiet,
                    }
                })
            })
        })
        .boxed()
}
