//! Object-safe wrapper around the five typed map handles of abyssiniandb, so that the
//! interpreter is written once.  Keys are passed as the raw stored bytes and converted to the
//! *native* key form of each type (u64 / i64 / &str / &[u8]) before the public API is called.
use crate::decoder::vu64_decode;
use crate::types::{BufP, Buckets, Kt, Params};
use abyssiniandb::filedb::{
    CheckFileDbMap, FileBufSizeParam, FileDb, FileDbMap, FileDbParams, HashBucketsParam,
};
use abyssiniandb::{DbBytes, DbI64, DbMap, DbMapKeyType, DbString, DbU64, DbVu64, DbXxx, DbXxxBase};
use std::io::Result;

pub fn to_params(p: &Params) -> FileDbParams {
    fn b(x: &BufP) -> FileBufSizeParam {
        match *x {
            BufP::Auto => FileBufSizeParam::Auto,
            BufP::PerMille(v) => FileBufSizeParam::PerMille(v),
            BufP::Size(v) => FileBufSizeParam::Size(v),
        }
    }
    FileDbParams {
        val_buf_size: b(&p.val),
        key_buf_size: b(&p.key),
        idx_buf_size: FileBufSizeParam::PerMille(1000),
        htx_buf_size: b(&p.htx),
        buckets_size: match p.buckets {
            Buckets::Default => HashBucketsParam::Default,
            Buckets::BucketsSize(x) => HashBucketsParam::BucketsSize(x),
            Buckets::Capacity(x) => HashBucketsParam::Capacity(x),
        },
    }
}

#[derive(Debug, Clone, Default, PartialEq)]
pub struct StatsOut {
    pub free_key: Vec<(u32, u64)>,
    pub free_val: Vec<(u32, u64)>,
    pub key_piece_size: String,
    pub val_piece_size: String,
    pub key_length: String,
    pub val_length: String,
    pub keys_count: String,
    pub filling: (u64, u32),
}

/// observation of one traversal
#[derive(Debug, Clone, Default)]
pub struct IterOut {
    /// yielded items: (key bytes or empty, value or empty)
    pub items: Vec<(Option<Vec<u8>>, Option<Vec<u8>>)>,
    /// size_hint observed before every next() (including the ones after the end)
    pub hints: Vec<(usize, Option<usize>)>,
    /// results (is_some) of the extra next() calls after the first None
    pub after_end: Vec<bool>,
    /// whether the first None was reached
    pub ended: bool,
}

pub trait LiveIter {
    /// the items already taken, then everything that is left (with the size hints seen)
    fn drain(&mut self) -> IterOut;
    fn flavour(&self) -> u8;
    /// number of items taken before it was handed out
    fn taken(&self) -> usize;
}

struct Live<I, T, F: Fn(T) -> (Option<Vec<u8>>, Option<Vec<u8>>)> {
    it: Option<I>,
    taken: Vec<(Option<Vec<u8>>, Option<Vec<u8>>)>,
    conv: F,
    f: u8,
    _t: std::marker::PhantomData<T>,
}

impl<I: Iterator<Item = T>, T, F: Fn(T) -> (Option<Vec<u8>>, Option<Vec<u8>>)> LiveIter for Live<I, T, F> {
    fn drain(&mut self) -> IterOut {
        let mut out = IterOut::default();
        out.items = std::mem::take(&mut self.taken);
        if let Some(mut it) = self.it.take() {
            loop {
                crate::exec::tick();
                out.hints.push(it.size_hint());
                match it.next() {
                    Some(x) => out.items.push((self.conv)(x)),
                    None => {
                        out.ended = true;
                        break;
                    }
                }
                if out.items.len() > 10_000_000 {
                    break;
                }
            }
        }
        out
    }
    fn flavour(&self) -> u8 {
        self.f
    }
    fn taken(&self) -> usize {
        self.taken.len()
    }
}

fn live<I: Iterator<Item = T> + 'static, T: 'static, F: Fn(T) -> (Option<Vec<u8>>, Option<Vec<u8>>) + 'static>(
    mut it: I,
    take: usize,
    f: u8,
    conv: F,
) -> Box<dyn LiveIter> {
    let mut taken = Vec::new();
    for _ in 0..take {
        match it.next() {
            Some(x) => taken.push(conv(x)),
            None => break,
        }
    }
    Box::new(Live { it: Some(it), taken, conv, f, _t: std::marker::PhantomData })
}

pub trait MapH {
    fn kt(&self) -> Kt;
    fn put(&mut self, k: &[u8], v: &[u8]) -> Result<()>;
    fn get(&mut self, k: &[u8]) -> Result<Option<Vec<u8>>>;
    fn delete(&mut self, k: &[u8]) -> Result<Option<Vec<u8>>>;
    fn includes(&mut self, k: &[u8]) -> Result<bool>;
    fn put_string(&mut self, k: &[u8], v: &str) -> Result<()>;
    fn get_string(&mut self, k: &[u8]) -> Result<Option<String>>;
    fn delete_string(&mut self, k: &[u8]) -> Result<Option<String>>;
    fn bulk_get(&mut self, ks: &[Vec<u8>]) -> Result<Vec<Option<Vec<u8>>>>;
    fn bulk_get_string(&mut self, ks: &[Vec<u8>]) -> Result<Vec<Option<String>>>;
    fn bulk_delete(&mut self, ks: &[Vec<u8>]) -> Result<Vec<Option<Vec<u8>>>>;
    fn bulk_delete_string(&mut self, ks: &[Vec<u8>]) -> Result<Vec<Option<String>>>;
    fn bulk_put(&mut self, kvs: &[(Vec<u8>, Vec<u8>)]) -> Result<()>;
    fn bulk_put_string(&mut self, kvs: &[(Vec<u8>, String)]) -> Result<()>;
    fn put_from_iter(&mut self, kvs: &[(Vec<u8>, Vec<u8>)]) -> Result<()>;
    /// put_from_iter fed by a live traversal of the same map through a second handle
    fn put_from_own_iter(&mut self, t: u8) -> Result<()>;
    fn len(&self) -> Result<u64>;
    fn is_empty(&self) -> Result<bool>;
    fn read_fill_buffer(&mut self) -> Result<()>;
    fn flush(&mut self) -> Result<()>;
    fn sync_all(&mut self) -> Result<()>;
    fn sync_data(&mut self) -> Result<()>;
    fn is_dirty(&self) -> bool;
    fn clone_handle(&self) -> Box<dyn MapH>;
    fn reacquire(&self, db: &FileDb, name: &str) -> Result<Box<dyn MapH>>;
    /// traverse with flavour `f`; `take`: number of next() calls before the iterator is dropped
    /// (None: until the end, then `extra` more next() calls)
    fn iterate(&mut self, f: u8, take: Option<usize>, extra: usize) -> IterOut;
    /// full traversal; before every `every`-th step `between(self_as_reader)` is called with a
    /// second handle of the same map, and a nested iterator is stepped
    fn iterate_mixed(&mut self, f: u8, every: usize, between: &mut dyn FnMut(&mut dyn MapH, usize)) -> IterOut;
    /// traversal by repeated `nth(n)`
    fn iterate_nth(&mut self, f: u8, n: usize) -> IterOut;
    /// the iterator of flavour f is created, `take` items consumed and the iterator returned alive
    /// an iterator advanced by `take` steps and handed out alive; it can be drained later, also
    /// after every handle and the database object are gone (it owns its share of the map)
    fn live_iter(&mut self, f: u8, take: usize) -> Box<dyn LiveIter>;
    fn stats(&self) -> Result<StatsOut>;
    /// typed key of the iteration converted back to the integer (U64/I64/Vu64), as i128
    fn key_to_int(&self, k: &[u8]) -> Option<i128>;
}

/// value transformation of Op::PutFromOwnIter (shared with the model)
pub fn own_iter_transform(t: u8, v: &[u8]) -> Vec<u8> {
    match t % 2 {
        0 => v.to_vec(),
        _ => v.iter().map(|b| !b).collect(),
    }
}

fn int_of_bytes8(b: &[u8]) -> u64 {
    let mut a = [0u8; 8];
    let n = b.len().min(8);
    a[..n].copy_from_slice(&b[..n]);
    u64::from_le_bytes(a)
}

fn drive_nth<I, T>(mut it: I, n: usize, conv: impl Fn(T) -> (Option<Vec<u8>>, Option<Vec<u8>>)) -> IterOut
where
    I: Iterator<Item = T>,
{
    let mut out = IterOut::default();
    loop {
        crate::exec::tick();
        out.hints.push(it.size_hint());
        match it.nth(n) {
            Some(x) => out.items.push(conv(x)),
            None => {
                out.ended = true;
                break;
            }
        }
        if out.items.len() > 10_000_000 {
            break;
        }
    }
    out.hints.push(it.size_hint());
    out
}

fn drive<I, T>(
    mut it: I,
    take: Option<usize>,
    extra: usize,
    conv: impl Fn(T) -> (Option<Vec<u8>>, Option<Vec<u8>>),
) -> IterOut
where
    I: Iterator<Item = T>,
{
    let mut out = IterOut::default();
    match take {
        Some(n) => {
            for _ in 0..n {
                out.hints.push(it.size_hint());
                match it.next() {
                    Some(x) => out.items.push(conv(x)),
                    None => {
                        out.ended = true;
                        break;
                    }
                }
            }
            // one more hint before dropping
            out.hints.push(it.size_hint());
        }
        None => {
            loop {
                out.hints.push(it.size_hint());
                match it.next() {
                    Some(x) => out.items.push(conv(x)),
                    None => {
                        out.ended = true;
                        break;
                    }
                }
                if out.items.len() > 50_000_000 {
                    break;
                }
            }
            for _ in 0..extra {
                out.hints.push(it.size_hint());
                out.after_end.push(it.next().is_some());
            }
        }
    }
    out
}

macro_rules! impl_maph {
    ($wrap:ident, $kt:ty, $ktenum:expr, $open:ident, $open_p:ident,
     // expression turning `$k: &[u8]` into a call `$body` with a native key reference bound to `$q`
     |$kb:ident, $q:ident| $with:block) => {
        pub struct $wrap(pub FileDbMap<$kt>);

        impl $wrap {
            pub fn open(db: &FileDb, name: &str, p: &Params) -> Result<Box<dyn MapH>> {
                Ok(Box::new($wrap(db.$open_p(name, to_params(p))?)))
            }
        }

        impl MapH for $wrap {
            fn kt(&self) -> Kt {
                $ktenum
            }
            fn put(&mut self, $kb: &[u8], v: &[u8]) -> Result<()> {
                let m = &mut self.0;
                macro_rules! call { ($q2:ident) => { m.put($q2, v) } }
                $with
            }
            fn get(&mut self, $kb: &[u8]) -> Result<Option<Vec<u8>>> {
                let m = &mut self.0;
                macro_rules! call { ($q2:ident) => { m.get($q2) } }
                $with
            }
            fn delete(&mut self, $kb: &[u8]) -> Result<Option<Vec<u8>>> {
                let m = &mut self.0;
                macro_rules! call { ($q2:ident) => { m.delete($q2) } }
                $with
            }
            fn includes(&mut self, $kb: &[u8]) -> Result<bool> {
                let m = &mut self.0;
                macro_rules! call { ($q2:ident) => { m.includes_key($q2) } }
                $with
            }
            fn put_string(&mut self, $kb: &[u8], v: &str) -> Result<()> {
                let m = &mut self.0;
                macro_rules! call { ($q2:ident) => { m.put_string($q2, v) } }
                $with
            }
            fn get_string(&mut self, $kb: &[u8]) -> Result<Option<String>> {
                let m = &mut self.0;
                macro_rules! call { ($q2:ident) => { m.get_string($q2) } }
                $with
            }
            fn delete_string(&mut self, $kb: &[u8]) -> Result<Option<String>> {
                let m = &mut self.0;
                macro_rules! call { ($q2:ident) => { m.delete_string($q2) } }
                $with
            }
            fn bulk_get(&mut self, ks: &[Vec<u8>]) -> Result<Vec<Option<Vec<u8>>>> {
                let kts: Vec<$kt> = ks.iter().map(|k| <$kt>::from_bytes(k)).collect();
                let refs: Vec<&$kt> = kts.iter().collect();
                self.0.bulk_get(&refs)
            }
            fn bulk_get_string(&mut self, ks: &[Vec<u8>]) -> Result<Vec<Option<String>>> {
                let kts: Vec<$kt> = ks.iter().map(|k| <$kt>::from_bytes(k)).collect();
                let refs: Vec<&$kt> = kts.iter().collect();
                self.0.bulk_get_string(&refs)
            }
            fn bulk_delete(&mut self, ks: &[Vec<u8>]) -> Result<Vec<Option<Vec<u8>>>> {
                let kts: Vec<$kt> = ks.iter().map(|k| <$kt>::from_bytes(k)).collect();
                let refs: Vec<&$kt> = kts.iter().collect();
                self.0.bulk_delete(&refs)
            }
            fn bulk_delete_string(&mut self, ks: &[Vec<u8>]) -> Result<Vec<Option<String>>> {
                let kts: Vec<$kt> = ks.iter().map(|k| <$kt>::from_bytes(k)).collect();
                let refs: Vec<&$kt> = kts.iter().collect();
                self.0.bulk_delete_string(&refs)
            }
            fn bulk_put(&mut self, kvs: &[(Vec<u8>, Vec<u8>)]) -> Result<()> {
                let kts: Vec<$kt> = kvs.iter().map(|kv| <$kt>::from_bytes(&kv.0)).collect();
                let bulk: Vec<(&$kt, &[u8])> = kts
                    .iter()
                    .zip(kvs.iter())
                    .map(|(k, kv)| (k, kv.1.as_slice()))
                    .collect();
                self.0.bulk_put(&bulk)
            }
            fn bulk_put_string(&mut self, kvs: &[(Vec<u8>, String)]) -> Result<()> {
                let kts: Vec<$kt> = kvs.iter().map(|kv| <$kt>::from_bytes(&kv.0)).collect();
                let bulk: Vec<(&$kt, String)> = kts
                    .iter()
                    .zip(kvs.iter())
                    .map(|(k, kv)| (k, kv.1.clone()))
                    .collect();
                self.0.bulk_put_string(&bulk)
            }
            fn put_from_iter(&mut self, kvs: &[(Vec<u8>, Vec<u8>)]) -> Result<()> {
                let mut v: Vec<($kt, Vec<u8>)> = kvs
                    .iter()
                    .map(|kv| (<$kt>::from_bytes(&kv.0), kv.1.clone()))
                    .collect();
                // iterator kinds by the batch: exact size, filtered (0, Some(n)), generator (0, None),
                // known head chained to a generator (h, None)
                match v.len() % 4 {
                    0 => self.0.put_from_iter(v.into_iter()),
                    1 => self.0.put_from_iter(v.into_iter().filter(|_| true)),
                    2 => {
                        let mut it = v.into_iter();
                        self.0.put_from_iter(std::iter::from_fn(move || it.next()))
                    }
                    _ => {
                        let h = v.len() / 2;
                        let mut tail = v.split_off(h).into_iter();
                        self.0.put_from_iter(v.into_iter().chain(std::iter::from_fn(move || tail.next())))
                    }
                }
            }
            fn put_from_own_iter(&mut self, t: u8) -> Result<()> {
                let reader = self.0.clone();
                self.0.put_from_iter(reader.iter().map(|(k, v)| {
                    crate::exec::tick();
                    (k, own_iter_transform(t, &v))
                }))
            }
            fn len(&self) -> Result<u64> {
                self.0.len()
            }
            fn is_empty(&self) -> Result<bool> {
                self.0.is_empty()
            }
            fn read_fill_buffer(&mut self) -> Result<()> {
                self.0.read_fill_buffer()
            }
            fn flush(&mut self) -> Result<()> {
                self.0.flush()
            }
            fn sync_all(&mut self) -> Result<()> {
                self.0.sync_all()
            }
            fn sync_data(&mut self) -> Result<()> {
                self.0.sync_data()
            }
            fn is_dirty(&self) -> bool {
                self.0.is_dirty()
            }
            fn clone_handle(&self) -> Box<dyn MapH> {
                Box::new($wrap(self.0.clone()))
            }
            fn reacquire(&self, db: &FileDb, name: &str) -> Result<Box<dyn MapH>> {
                Ok(Box::new($wrap(db.$open(name)?)))
            }
            fn iterate(&mut self, f: u8, take: Option<usize>, extra: usize) -> IterOut {
                let kv = |(k, v): ($kt, Vec<u8>)| (Some(k.as_bytes().to_vec()), Some(v));
                match f {
                    0 => drive(self.0.iter(), take, extra, kv),
                    1 => drive(self.0.iter_mut(), take, extra, kv),
                    2 => drive(self.0.keys(), take, extra, |k: $kt| {
                        (Some(k.as_bytes().to_vec()), None)
                    }),
                    3 => drive(self.0.values(), take, extra, |v: Vec<u8>| (None, Some(v))),
                    4 => drive(self.0.clone().into_iter(), take, extra, kv),
                    5 => drive((&self.0).into_iter(), take, extra, kv),
                    _ => drive((&mut self.0).into_iter(), take, extra, kv),
                }
            }
            fn iterate_nth(&mut self, f: u8, n: usize) -> IterOut {
                let kv = |(k, v): ($kt, Vec<u8>)| (Some(k.as_bytes().to_vec()), Some(v));
                match f {
                    0 => drive_nth(self.0.iter(), n, kv),
                    1 => drive_nth(self.0.iter_mut(), n, kv),
                    2 => drive_nth(self.0.keys(), n, |k: $kt| (Some(k.as_bytes().to_vec()), None)),
                    3 => drive_nth(self.0.values(), n, |v: Vec<u8>| (None, Some(v))),
                    4 => drive_nth(self.0.clone().into_iter(), n, kv),
                    5 => drive_nth((&self.0).into_iter(), n, kv),
                    _ => drive_nth((&mut self.0).into_iter(), n, kv),
                }
            }
            fn iterate_mixed(&mut self, f: u8, every: usize, between: &mut dyn FnMut(&mut dyn MapH, usize)) -> IterOut {
                let kv = |(k, v): ($kt, Vec<u8>)| (Some(k.as_bytes().to_vec()), Some(v));
                let mut other = $wrap(self.0.clone());
                let mut nested = self.0.keys();
                let mut out = IterOut::default();
                macro_rules! run {
                    ($it:expr, $conv:expr) => {{
                        let mut it = $it;
                        let mut step = 0usize;
                        loop {
                            if every > 0 && step % every == 0 {
                                between(&mut other, step);
                                let _ = nested.next();
                            }
                            out.hints.push(it.size_hint());
                            match it.next() {
                                Some(x) => out.items.push($conv(x)),
                                None => {
                                    out.ended = true;
                                    break;
                                }
                            }
                            step += 1;
                            if step > 50_000_000 {
                                break;
                            }
                        }
                        for _ in 0..2 {
                            between(&mut other, step);
                            out.hints.push(it.size_hint());
                            out.after_end.push(it.next().is_some());
                        }
                    }};
                }
                match f % 7 {
                    0 => run!(self.0.iter(), kv),
                    1 => run!(self.0.iter_mut(), kv),
                    2 => run!(self.0.keys(), |k: $kt| (Some(k.as_bytes().to_vec()), None)),
                    3 => run!(self.0.values(), |v: Vec<u8>| (None, Some(v))),
                    4 => run!(self.0.clone().into_iter(), kv),
                    5 => run!((&self.0).into_iter(), kv),
                    _ => run!((&mut self.0).into_iter(), kv),
                }
                out
            }
            fn live_iter(&mut self, f: u8, take: usize) -> Box<dyn LiveIter> {
                let kv = |(k, v): ($kt, Vec<u8>)| (Some(k.as_bytes().to_vec()), Some(v));
                match f % 4 {
                    0 => live(self.0.iter(), take, 0, kv),
                    1 => live(self.0.keys(), take, 2, |k: $kt| (Some(k.as_bytes().to_vec()), None)),
                    2 => live(self.0.values(), take, 3, |v: Vec<u8>| (None, Some(v))),
                    _ => live(self.0.clone().into_iter(), take, 4, kv),
                }
            }
            fn stats(&self) -> Result<StatsOut> {
                Ok(StatsOut {
                    free_key: self.0.count_of_free_key_piece()?,
                    free_val: self.0.count_of_free_value_piece()?,
                    key_piece_size: self.0.key_piece_size_stats()?.to_string(),
                    val_piece_size: self.0.value_piece_size_stats()?.to_string(),
                    key_length: self.0.key_length_stats()?.to_string(),
                    val_length: self.0.value_length_stats()?.to_string(),
                    keys_count: self.0.keys_count_stats()?.to_string(),
                    filling: self.0.htx_filling_rate_per_mill()?,
                })
            }
            fn key_to_int(&self, k: &[u8]) -> Option<i128> {
                key_to_int($ktenum, k)
            }
        }
    };
}

pub fn key_to_int(kt: Kt, k: &[u8]) -> Option<i128> {
    match kt {
        Kt::U64 => Some(u64::from(&DbU64::from(k)) as i128),
        Kt::I64 => Some(i64::from(&DbI64::from(k)) as i128),
        Kt::Vu64 => Some(u64::from(&DbVu64::from(k)) as i128),
        _ => None,
    }
}

impl_maph!(HBytes, DbBytes, Kt::Bytes, db_map_bytes, db_map_bytes_with_params, |kb, q| {
    let q: &[u8] = kb;
    call!(q)
});

impl_maph!(HString, DbString, Kt::String, db_map_string, db_map_string_with_params, |kb, q| {
    match std::str::from_utf8(kb) {
        Ok(s) => {
            let q: &str = s;
            call!(q)
        }
        Err(_) => {
            let q: &[u8] = kb;
            call!(q)
        }
    }
});

impl_maph!(HU64, DbU64, Kt::U64, db_map_u64, db_map_u64_with_params, |kb, q| {
    if kb.len() == 8 {
        let n: u64 = int_of_bytes8(kb);
        let q: &u64 = &n;
        call!(q)
    } else {
        let q: &[u8] = kb;
        call!(q)
    }
});

impl_maph!(HI64, DbI64, Kt::I64, db_map_i64, db_map_i64_with_params, |kb, q| {
    if kb.len() == 8 {
        let n: i64 = int_of_bytes8(kb) as i64;
        let q: &i64 = &n;
        call!(q)
    } else {
        let q: &[u8] = kb;
        call!(q)
    }
});

impl_maph!(HVu64, DbVu64, Kt::Vu64, db_map_vu64, db_map_vu64_with_params, |kb, q| {
    match vu64_decode(kb, 0) {
        Some((n, l)) if l == kb.len() && crate::decoder::vu64_encode(n) == kb => {
            let q: &u64 = &n;
            call!(q)
        }
        _ => {
            let q: &[u8] = kb;
            call!(q)
        }
    }
});

pub fn open_map(db: &FileDb, name: &str, kt: Kt, p: &Params) -> Result<Box<dyn MapH>> {
    match kt {
        Kt::Bytes => HBytes::open(db, name, p),
        Kt::String => HString::open(db, name, p),
        Kt::U64 => HU64::open(db, name, p),
        Kt::I64 => HI64::open(db, name, p),
        Kt::Vu64 => HVu64::open(db, name, p),
    }
}
