//! Case description types: everything a generated case consists of, serialisable to the
//! JSON replay files.
use serde::{Deserialize, Serialize};

#[derive(Serialize, Deserialize, Clone, Copy, Debug, PartialEq, Eq, PartialOrd, Ord, Hash)]
pub enum Kt {
    Bytes,
    String,
    U64,
    I64,
    Vu64,
}

impl Kt {
    pub const ALL: [Kt; 5] = [Kt::Bytes, Kt::String, Kt::U64, Kt::I64, Kt::Vu64];
    pub fn signature(&self) -> [u8; 8] {
        match self {
            Kt::Bytes => *b"bytes\0\0\0",
            Kt::String => *b"string\0\0",
            Kt::U64 => *b"u64_le\0\0",
            Kt::I64 => *b"i64_le\0\0",
            Kt::Vu64 => *b"u64_le\0\0",
        }
    }
    pub fn name(&self) -> &'static str {
        match self {
            Kt::Bytes => "bytes",
            Kt::String => "string",
            Kt::U64 => "u64",
            Kt::I64 => "i64",
            Kt::Vu64 => "vu64",
        }
    }
}

#[derive(Serialize, Deserialize, Clone, Copy, Debug, PartialEq, Eq)]
pub enum BufP {
    Auto,
    PerMille(u16),
    Size(u32),
}

#[derive(Serialize, Deserialize, Clone, Copy, Debug, PartialEq, Eq)]
pub enum Buckets {
    Default,
    BucketsSize(u64),
    Capacity(u64),
}

impl Buckets {
    /// the bucket count a fresh table gets (independent re-statement of the documented rule).
    pub fn bucket_count(&self) -> u64 {
        match *self {
            Buckets::Default => 16 * 1024 * 1024,
            Buckets::BucketsSize(x) => x.next_power_of_two(),
            Buckets::Capacity(c) => {
                if c < 8 {
                    8
                } else {
                    (c + c / 8).next_power_of_two()
                }
            }
        }
    }
}

#[derive(Serialize, Deserialize, Clone, Copy, Debug, PartialEq, Eq)]
pub struct Params {
    pub val: BufP,
    pub key: BufP,
    pub htx: BufP,
    pub buckets: Buckets,
}

impl Params {
    pub fn plain(buckets: Buckets) -> Params {
        Params {
            val: BufP::Auto,
            key: BufP::PerMille(1000),
            htx: BufP::PerMille(1000),
            buckets,
        }
    }
}

/// a value: `len` bytes of a pattern derived from `seed` (see `value_bytes`), or literal bytes.
#[derive(Serialize, Deserialize, Clone, Debug, PartialEq, Eq, Hash)]
pub enum Val {
    P { len: u32, seed: u32 },
    B(#[serde(with = "hexser")] Vec<u8>),
    /// `len` bytes of mostly well-formed UTF-8 text made of 1-, 2-, 3- and 4-byte characters,
    /// with a few stray invalid bytes at seed-dependent positions
    U { len: u32, seed: u32 },
    /// `len` bytes of particular CONTENT: form 0 all 0x00, 1 all 0xFF, 2 text that starts with a
    /// byte order mark (EF BB BF), 3 a prefix-stable stream (same seed: the shorter value is a
    /// prefix of the longer one), 4 one repeated byte, 5 ends in NUL bytes, 6 valid UTF-8 only,
    /// 7 starts with 0x00
    C { len: u32, seed: u32, form: u8 },
}

impl Val {
    pub fn bytes(&self) -> Vec<u8> {
        match self {
            Val::P { len, seed } => pattern_bytes(*len as usize, *seed),
            Val::B(b) => b.clone(),
            Val::U { len, seed } => utf8ish_bytes(*len as usize, *seed),
            Val::C { len, seed, form } => content_bytes(*len as usize, *seed, *form),
        }
    }
    pub fn len(&self) -> usize {
        match self {
            Val::P { len, .. } | Val::U { len, .. } | Val::C { len, .. } => *len as usize,
            Val::B(b) => b.len(),
        }
    }
}

/// value of Op::PutRel, derived from the value currently stored
pub fn rel_value(old: Option<&Vec<u8>>, mode: u8, n: u16, k: u32) -> Vec<u8> {
    let old: Vec<u8> = old.cloned().unwrap_or_default();
    // half of the draws are small steps (1..40 bytes), so that length-field boundaries are crossed
    // without leaving the slot
    let n = if n & 0x8000 != 0 { (n as usize) % 40 } else { n as usize };
    match mode % 6 {
        0 => {
            let mut v = old;
            v.extend(stream_bytes(1 + n % 700, k ^ n as u32));
            v
        }
        1 => {
            let cut = (1 + n % 700).min(old.len());
            old[..old.len() - cut].to_vec()
        }
        2 => old,
        3 => {
            let mut v = old;
            if v.is_empty() {
                v.push(1);
            } else {
                let i = n % v.len();
                v[i] ^= 0x5A;
            }
            v
        }
        4 => {
            let mut v = stream_bytes(1 + n % 300, k.wrapping_add(77) ^ n as u32);
            v.extend(old);
            v
        }
        _ => {
            if old.len() > 4096 {
                old
            } else {
                let mut v = old.clone();
                v.extend(old);
                v
            }
        }
    }
}

/// a byte stream that depends on the seed only (prefix-stable)
pub fn stream_bytes(len: usize, seed: u32) -> Vec<u8> {
    let mut v = Vec::with_capacity(len + 8);
    let mut x: u64 = 0xA076_1D64_78BD_642Fu64 ^ ((seed as u64 + 1) << 23);
    while v.len() < len {
        x ^= x << 13;
        x ^= x >> 7;
        x ^= x << 17;
        v.extend_from_slice(&x.to_le_bytes());
    }
    v.truncate(len);
    v
}

pub fn content_bytes(len: usize, seed: u32, form: u8) -> Vec<u8> {
    match form % 8 {
        0 => vec![0u8; len],
        1 => vec![0xFFu8; len],
        2 => {
            let mut v = vec![0xEFu8, 0xBB, 0xBF];
            v.extend(utf8ish_bytes(len.saturating_sub(3), seed));
            v.truncate(len);
            v
        }
        3 => stream_bytes(len, seed),
        4 => vec![(seed.wrapping_mul(37).wrapping_add(1)) as u8; len],
        5 => {
            let mut v = pattern_bytes(len, seed);
            let z = (1 + seed as usize % 9).min(len);
            for b in v[len - z..].iter_mut() {
                *b = 0;
            }
            v
        }
        6 => {
            let chars = ['a', 'é', '語', '😀', 'Z', '\u{feff}', 'ß', ' '];
            let mut s = String::new();
            let mut i = seed as usize;
            loop {
                let c = chars[i % chars.len()];
                if s.len() + c.len_utf8() > len {
                    break;
                }
                s.push(c);
                i = i.wrapping_mul(31).wrapping_add(7);
            }
            while s.len() < len {
                s.push('a');
            }
            s.into_bytes()
        }
        _ => {
            let mut v = pattern_bytes(len, seed);
            if len > 0 {
                v[0] = 0;
            }
            v
        }
    }
}

/// deterministic, position dependent byte pattern; never all-zero for len>0 (so misplaced or
/// zero-filled bytes are visible).
pub fn pattern_bytes(len: usize, seed: u32) -> Vec<u8> {
    let mut v = Vec::with_capacity(len);
    let mut x: u64 = 0x9E37_79B9_7F4A_7C15u64 ^ ((seed as u64) << 17) ^ (len as u64);
    let mut i = 0usize;
    while i < len {
        x ^= x << 13;
        x ^= x >> 7;
        x ^= x << 17;
        let b = x.to_le_bytes();
        let n = (len - i).min(8);
        v.extend_from_slice(&b[..n]);
        i += n;
    }
    if len > 0 && v[0] == 0 {
        v[0] = 0xA5;
    }
    v
}

/// mostly well-formed UTF-8 of mixed character widths with a few invalid bytes
pub fn utf8ish_bytes(len: usize, seed: u32) -> Vec<u8> {
    let chars = ['a', 'Z', ' ', 'é', 'ß', 'λ', '語', '日', '本', '€', '😀', '𝄞'];
    let mut v: Vec<u8> = Vec::with_capacity(len + 4);
    let mut x: u64 = 0xD1B5_4A32_D192_ED03 ^ ((seed as u64) << 20) ^ len as u64;
    // the character phase is varied by the seed so that any byte position can fall inside a character
    while v.len() < len {
        x ^= x << 13;
        x ^= x >> 7;
        x ^= x << 17;
        let c = chars[(x % chars.len() as u64) as usize];
        let mut b = [0u8; 4];
        v.extend_from_slice(c.encode_utf8(&mut b).as_bytes());
    }
    v.truncate(len);
    // a few stray bytes
    if len > 0 {
        let n = 1 + (seed as usize % 3);
        for i in 0..n {
            let pos = ((x >> (8 * i)) as usize).wrapping_mul(2654435761) % len;
            v[pos] = [0xFFu8, 0xC0, 0x80][i % 3];
        }
    }
    v
}

pub mod hexser {
    use serde::{Deserialize, Deserializer, Serializer};
    pub fn serialize<S: Serializer>(v: &Vec<u8>, s: S) -> Result<S::Ok, S::Error> {
        s.serialize_str(&super::hex(v))
    }
    pub fn deserialize<'de, D: Deserializer<'de>>(d: D) -> Result<Vec<u8>, D::Error> {
        let s = String::deserialize(d)?;
        super::unhex(&s).map_err(serde::de::Error::custom)
    }
}

pub fn hex(v: &[u8]) -> String {
    let mut s = String::with_capacity(v.len() * 2);
    for b in v {
        s.push_str(&format!("{:02x}", b));
    }
    s
}

pub fn unhex(s: &str) -> Result<Vec<u8>, String> {
    if s.len() % 2 != 0 {
        return Err("odd hex length".into());
    }
    let b = s.as_bytes();
    let mut v = Vec::with_capacity(s.len() / 2);
    for i in (0..b.len()).step_by(2) {
        let h = (b[i] as char).to_digit(16).ok_or("bad hex")?;
        let l = (b[i + 1] as char).to_digit(16).ok_or("bad hex")?;
        v.push((h * 16 + l) as u8);
    }
    Ok(v)
}

/// a key of the pool: raw bytes as they are stored in the key file.
#[derive(Serialize, Deserialize, Clone, Debug, PartialEq, Eq, Hash, PartialOrd, Ord)]
pub enum Key {
    /// literal bytes
    B(#[serde(with = "hexser")] Vec<u8>),
    /// `len` pattern bytes from `seed`
    P { len: u32, seed: u32 },
    /// printable ascii pattern (valid UTF-8), `len` bytes from `seed`
    S { len: u32, seed: u32 },
}

impl Key {
    pub fn bytes(&self) -> Vec<u8> {
        match self {
            Key::B(b) => b.clone(),
            Key::P { len, seed } => pattern_bytes(*len as usize, *seed),
            Key::S { len, seed } => {
                let raw = pattern_bytes(*len as usize, *seed);
                raw.iter().map(|b| b'!' + (b % 90)).collect()
            }
        }
    }
}

/// iterator flavours
pub const ITER_FLAVOURS: [&str; 7] = [
    "iter",
    "iter_mut",
    "keys",
    "values",
    "into_iter",
    "ref_into_iter",
    "mut_into_iter",
];

#[derive(Serialize, Deserialize, Clone, Debug, PartialEq, Eq)]
pub enum Op {
    Put { k: u32, v: Val },
    /// the same put issued n times in a row (counters that wrap at 2^8 / 2^16 calls)
    Burst { k: u32, v: Val, n: u32 },
    Get { k: u32 },
    Del { k: u32 },
    Inc { k: u32 },
    Len,
    IsEmpty,
    PutStr { k: u32, v: Val },
    GetStr { k: u32 },
    DelStr { k: u32 },
    BulkGet { ks: Vec<u32> },
    BulkGetStr { ks: Vec<u32> },
    BulkDel { ks: Vec<u32> },
    BulkDelStr { ks: Vec<u32> },
    BulkPut { kvs: Vec<(u32, Val)> },
    BulkPutStr { kvs: Vec<(u32, Val)> },
    PutFromIter { kvs: Vec<(u32, Val)> },
    /// a put whose value is derived from the value currently stored (the model's; absent = empty):
    /// mode 0 the old value + n new bytes (the old value is a proper prefix), 1 the old value cut by
    /// n bytes, 2 the identical value again, 3 same length with one byte changed, 4 n new bytes + the
    /// old value, 5 the old value twice
    PutRel { k: u32, mode: u8, n: u16 },
    /// `h1.put_from_iter(h2.iter().map(|(k, v)| (k, t(v))))` with h2 another handle of the same
    /// map: every stored value rewritten in place through the batch call, fed by a live traversal
    /// (t even: identity, t odd: inverted bytes; the lengths never change, so no record moves while
    /// the traversal is alive -- growing or shrinking values during a traversal is outside what the
    /// unchanged code supports and outside C04's domain)
    PutFromOwnIter { t: u8 },
    /// flavour index into ITER_FLAVOURS; take = None consumes everything (+3 extra next())
    Iter { f: u8, take: Option<u16> },
    /// full traversal with other read-only calls between the steps: every `every`-th step a
    /// lookup of pool key `k` (+step), len(), and a step of a second, nested iterator
    IterMix { f: u8, every: u8, k: u32 },
    /// full traversal driven by `nth(n)` (what `skip`, `step_by` and paging use): the items are those
    /// of a plain traversal at positions n, 2n+1, ..; the hints stay exact
    IterNth { f: u8, n: u8 },
    /// create an iterator, advance it `take` steps and keep it alive (never stepped again unless the
    /// map stays unmodified); it is drained or dropped by `DropIters`, a reopen or the end of the case
    HoldIter { f: u8, take: u8 },
    /// drain (if no update happened since they were created) and drop the held iterators
    DropIters,
    Stats,
    ReadFill,
    Flush,
    SyncData,
    SyncAll,
    DbSyncData,
    DbSyncAll,
    /// clone handle `h` of the current map
    CloneHandle,
    /// drop one handle of the current map (never the last one)
    DropHandle,
    /// drop every user handle of the current map (the database object keeps the map open); the
    /// next call on the map re-acquires it through the database object
    DropAll,
    /// re-acquire a handle through the db object (db_map_xxx(name))
    Reacquire,
    /// re-acquire through db_map_xxx_with_params(name, ..) while the map is open: the parameters
    /// are ignored, the handle aliases the open map (v selects the parameter set)
    ReacquireP { v: u8 },
    /// clone the db handle and re-acquire through the clone
    CloneDb,
    /// drop every database object (all clones) while the map handles stay alive and in use; lookups
    /// through the database object are skipped until the next reopen
    DropDb,
    /// the path the database was opened through stops resolving (the case then opens through a
    /// symbolic link, which this op removes); the files stay where they are
    HidePath,
    /// switch the current map (C11)
    Use { m: u16 },
    /// drop everything, reopen (in process), optionally verifying in a child process first
    Reopen { params: Params, child: bool, order: u8 },
}

impl Op {
    pub fn is_update(&self) -> bool {
        matches!(
            self,
            Op::Put { .. }
                | Op::Burst { .. }
                | Op::Del { .. }
                | Op::PutStr { .. }
                | Op::DelStr { .. }
                | Op::BulkDel { .. }
                | Op::BulkDelStr { .. }
                | Op::BulkPut { .. }
                | Op::BulkPutStr { .. }
                | Op::PutFromIter { .. }
                | Op::PutFromOwnIter { .. }
                | Op::PutRel { .. }
        )
    }
    pub fn is_sync(&self) -> bool {
        matches!(
            self,
            Op::Flush | Op::SyncData | Op::SyncAll | Op::DbSyncData | Op::DbSyncAll
        )
    }
}

#[derive(Serialize, Deserialize, Clone, Debug, PartialEq, Eq)]
pub struct MapSpec {
    pub name: String,
    pub kt: Kt,
    pub params: Params,
    pub keys: Vec<Key>,
    /// not opened at the start: first opened when first used, through the most recently cloned
    /// database handle (C11: lookups through different database handles must alias)
    #[serde(default)]
    pub late: bool,
}

/// what the interpreter observes besides API results.
#[derive(Serialize, Deserialize, Clone, Debug, PartialEq, Eq, Default)]
pub struct Obs {
    /// flush + decode (structure+contents) after every call
    #[serde(default)]
    pub decode_every_op: bool,
    /// decode after every successful flush/sync
    #[serde(default)]
    pub decode_at_sync: bool,
    /// decode after every close (Reopen op and end of case)
    #[serde(default)]
    pub decode_at_close: bool,
    /// tiling / free list / growth rules (C06); implies decode
    #[serde(default)]
    pub tiling: bool,
    /// statistics calls compared with decoder (C17) at every decode point
    #[serde(default)]
    pub stats: bool,
    /// snapshot the directory at every flush/sync while handles are alive, open the copy (C03)
    #[serde(default)]
    pub snapshot_at_sync: bool,
    /// check io trace at sync calls (C03)
    #[serde(default)]
    pub io_trace: bool,
    /// files of untouched maps must not change (C11)
    #[serde(default)]
    pub isolation: bool,
    /// full comparison with the model (every pool key + len) after every update (costly)
    #[serde(default)]
    pub full_compare_every_op: bool,
}

#[derive(Serialize, Deserialize, Clone, Debug, PartialEq, Eq)]
pub struct History {
    pub maps: Vec<MapSpec>,
    pub ops: Vec<Op>,
    #[serde(default)]
    pub obs: Obs,
    /// number of parameter draws replaced because they fall into a known-finding region
    #[serde(default)]
    pub excluded: u64,
    /// the per-call observers (decode after every call, full comparison, isolation) stay off
    /// during the first `quiet_prefix` ops (bulk preludes that only bring the files into a region)
    #[serde(default)]
    pub quiet_prefix: usize,
}
