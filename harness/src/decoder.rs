//! Independent reader of the abyssiniandb on-disk format.
//!
//! Written from the layout documentation (doc comments in htx.rs / key.rs / val.rs / vfile.rs and
//! the vu64 crate's format table).  Shares no code with abyssiniandb, rabuf or vu64.
//!
//! It demands only what the property statements say:
//!  * structure (C05): acyclic chains, key hashes to its bucket, no duplicate key, stored item
//!    count == reachable keys, non-empty bucket => bitmap bit set, value offset in bounds /
//!    parseable / not shared;
//!  * tiling (C06): slots tile [192, EOF), each slot live exactly once or on exactly one free list;
//!  * no opinion on padding bytes or on bitmap bits of empty buckets.
use crate::types::Kt;
use std::collections::{BTreeMap, BTreeSet, HashMap, HashSet};

pub const HTX_HEADER: u64 = 128;
pub const DAT_HEADER: u64 = 192;
pub const KEY_FREE_HEADS: u64 = 48;
pub const VAL_FREE_HEADS: u64 = 32;
pub const CLASSES: [u32; 16] = [
    16, 24, 32, 48, 64, 80, 96, 112, 128, 256, 384, 512, 640, 768, 896, 1024,
];

/// decoder mode for alternative cargo feature sets of the crate (C07 thorough):
/// VP_DECODE=off (other record format or other hash: API-level checks only),
/// VP_DECODE=nobitmap (crate built without the occupancy bitmap)
#[derive(Clone, Copy, PartialEq, Eq, Debug)]
pub enum Mode {
    Full,
    NoBitmap,
    Off,
}

pub fn mode() -> Mode {
    match std::env::var("VP_DECODE").as_deref() {
        Ok("off") => Mode::Off,
        Ok("nobitmap") => Mode::NoBitmap,
        _ => Mode::Full,
    }
}

// ---------------------------------------------------------------- vu64 (own implementation)

/// encoded length of a vu64 (prefix code: 7 bits per byte, 9 bytes max)
pub fn vu64_len(v: u64) -> u32 {
    let bits = 64 - v.leading_zeros();
    if bits <= 7 {
        1
    } else if bits > 56 {
        9
    } else {
        (bits + 6) / 7
    }
}

pub fn vu64_encode(v: u64) -> Vec<u8> {
    let l = vu64_len(v) as usize;
    let mut out = vec![0u8; l];
    match l {
        1 => out[0] = v as u8,
        9 => {
            out[0] = 0xFF;
            out[1..9].copy_from_slice(&v.to_le_bytes());
        }
        8 => {
            out[0] = 0xFE;
            out[1..8].copy_from_slice(&v.to_le_bytes()[..7]);
        }
        _ => {
            // first byte: (l-1) one bits, a zero bit, then the low (8-l) bits of v
            let low_bits = 8 - l as u32;
            let prefix: u8 = !(0xFFu8 >> (l as u32 - 1));
            out[0] = prefix | ((v as u8) & ((1u16 << low_bits) - 1) as u8);
            let rest = v >> low_bits;
            let rb = rest.to_le_bytes();
            out[1..l].copy_from_slice(&rb[..l - 1]);
        }
    }
    out
}

/// decode at `pos`; returns (value, encoded length). None if truncated.
pub fn vu64_decode(buf: &[u8], pos: usize) -> Option<(u64, usize)> {
    let b0 = *buf.get(pos)?;
    let l = b0.leading_ones() as usize + 1;
    if pos + l > buf.len() {
        return None;
    }
    let v = match l {
        1 => b0 as u64,
        9 => {
            let mut a = [0u8; 8];
            a.copy_from_slice(&buf[pos + 1..pos + 9]);
            u64::from_le_bytes(a)
        }
        8 => {
            let mut a = [0u8; 8];
            a[..7].copy_from_slice(&buf[pos + 1..pos + 8]);
            u64::from_le_bytes(a)
        }
        _ => {
            let low_bits = 8 - l as u32;
            let low = (b0 & ((1u16 << low_bits) - 1) as u8) as u64;
            let mut a = [0u8; 8];
            a[..l - 1].copy_from_slice(&buf[pos + 1..pos + l]);
            (u64::from_le_bytes(a) << low_bits) | low
        }
    };
    Some((v, l))
}

// ---------------------------------------------------------------- placement hash (own implementation)

fn mix(mut x: u64) -> u64 {
    x ^= x >> 12;
    x ^= x << 25;
    x ^= x >> 27;
    x
}

/// the documented placement hash: length prefix (usize, native bytes, folded big-endian), then the
/// key bytes 8 at a time big-endian (short tail right-aligned), `state = mix(state + word)`.
pub fn key_hash(key: &[u8]) -> u64 {
    let mut st: u64 = 0;
    let len_word = u64::from_be_bytes((key.len() as u64).to_ne_bytes());
    st = mix(st.wrapping_add(len_word));
    for ch in key.chunks(8) {
        let mut a: u64 = 0;
        for &b in ch {
            a = (a << 8) | b as u64;
        }
        st = mix(st.wrapping_add(a));
    }
    st
}

pub fn bucket_of(key: &[u8], n: u64) -> u64 {
    key_hash(key) % n
}

// ---------------------------------------------------------------- slot size rule (documented)

/// legal slot size: one of the 15 exact classes, or >= 1024 and a multiple of 128
pub fn legal_slot_size(sz: u64) -> bool {
    if sz < 1024 {
        CLASSES[..15].iter().any(|&c| c as u64 == sz)
    } else {
        sz % 128 == 0
    }
}

/// free list index a slot of this size belongs to (15 = shared large list)
pub fn class_index(sz: u64) -> usize {
    for (i, &c) in CLASSES.iter().enumerate() {
        if c as u64 == sz {
            return i;
        }
    }
    15
}

// ---------------------------------------------------------------- decoded image

#[derive(Clone, Debug)]
pub struct Entry {
    pub bucket: u64,
    pub chain_pos: usize,
    pub key_off: u64,
    pub key_size: u64,
    pub key: Vec<u8>,
    pub val_off: u64,
    pub val_size: u64,
    pub next: u64,
    pub value: Option<Vec<u8>>,
    /// encoded length of the key record (size field + len + key + offsets)
    pub key_enc: u64,
    /// encoded length of the value record (size field + len + value)
    pub val_enc: u64,
}

#[derive(Clone, Debug, PartialEq, Eq)]
pub enum SlotKind {
    Live,
    Free(usize),
    Orphan,
}

#[derive(Clone, Debug)]
pub struct Slot {
    pub off: u64,
    pub size: u64,
    pub kind: SlotKind,
    /// the length field (2nd vu64) of the slot
    pub len_field: u64,
}

#[derive(Clone, Debug, Default)]
pub struct FileTiling {
    pub slots: Vec<Slot>,
    /// free lists as (offset,size) in list order, per class
    pub free: Vec<Vec<(u64, u64)>>,
    pub file_len: u64,
    pub tiling_ok: bool,
}

#[derive(Clone, Debug, Default)]
pub struct Decoded {
    pub n_buckets: u64,
    pub item_count: u64,
    pub entries: Vec<Entry>,
    pub nonempty_buckets: u64,
    pub max_chain: usize,
    /// violations of the structural predicate of C05
    pub structure: Vec<String>,
    /// violations of the tiling / free-list rules of C06
    pub tiling: Vec<String>,
    /// violations of the header layout (C12)
    pub header: Vec<String>,
    pub key_file: FileTiling,
    pub val_file: FileTiling,
}

impl Decoded {
    pub fn contents(&self) -> BTreeMap<Vec<u8>, Vec<u8>> {
        let mut m = BTreeMap::new();
        for e in &self.entries {
            if let Some(v) = &e.value {
                m.insert(e.key.clone(), v.clone());
            }
        }
        m
    }
    pub fn ok_structure(&self) -> bool {
        self.structure.is_empty() && self.header.is_empty()
    }
}

fn rd_u64(buf: &[u8], off: u64) -> u64 {
    let o = off as usize;
    let mut a = [0u8; 8];
    if o >= buf.len() {
        return 0;
    }
    let n = (buf.len() - o).min(8);
    a[..n].copy_from_slice(&buf[o..o + n]);
    u64::from_le_bytes(a)
}

/// parse a key record at `off`: (size, key, val_off, next, encoded_len)
fn parse_key_record(buf: &[u8], off: u64) -> Result<(u64, Vec<u8>, u64, u64, u64), String> {
    let o = off as usize;
    let (sz8, l1) = vu64_decode(buf, o).ok_or("size field truncated")?;
    let (klen, l2) = vu64_decode(buf, o + l1).ok_or("key length truncated")?;
    let kstart = o + l1 + l2;
    let kend = kstart
        .checked_add(klen as usize)
        .ok_or("key length overflow")?;
    if kend > buf.len() {
        return Err(format!("key bytes run past end of file (len {klen})"));
    }
    let key = buf[kstart..kend].to_vec();
    let (v8, l3) = vu64_decode(buf, kend).ok_or("value offset truncated")?;
    let (n8, l4) = vu64_decode(buf, kend + l3).ok_or("next offset truncated")?;
    let enc = (l1 + l2 + klen as usize + l3 + l4) as u64;
    Ok((
        sz8.wrapping_mul(8),
        key,
        v8.wrapping_mul(8),
        n8.wrapping_mul(8),
        enc,
    ))
}

/// parse a value record at `off`: (size, value, encoded_len)
fn parse_val_record(buf: &[u8], off: u64) -> Result<(u64, Vec<u8>, u64), String> {
    let o = off as usize;
    let (sz8, l1) = vu64_decode(buf, o).ok_or("size field truncated")?;
    let (vlen, l2) = vu64_decode(buf, o + l1).ok_or("value length truncated")?;
    let vstart = o + l1 + l2;
    let vend = vstart
        .checked_add(vlen as usize)
        .ok_or("value length overflow")?;
    if vend > buf.len() {
        return Err(format!("value bytes run past end of file (len {vlen})"));
    }
    Ok((
        sz8.wrapping_mul(8),
        buf[vstart..vend].to_vec(),
        (l1 + l2) as u64 + vlen,
    ))
}

fn check_dat_header(
    buf: &[u8],
    magic: &[u8; 8],
    sig: &[u8; 8],
    what: &str,
    out: &mut Vec<String>,
) -> bool {
    if (buf.len() as u64) < DAT_HEADER {
        out.push(format!("{what}: file shorter than its 192-byte header ({})", buf.len()));
        return false;
    }
    if &buf[0..8] != magic {
        out.push(format!("{what}: signature1 {:?} != {:?}", &buf[0..8], magic));
    }
    if &buf[8..16] != sig {
        out.push(format!("{what}: type signature {:?} != {:?}", &buf[8..16], sig));
    }
    true
}

/// walk the slots of a key/val file and its 16 free lists; classify.
fn tile_file(
    buf: &[u8],
    heads_at: u64,
    live: &HashMap<u64, u64>, // offset -> number of live references
    what: &str,
    complaints: &mut Vec<String>,
) -> FileTiling {
    let mut t = FileTiling {
        file_len: buf.len() as u64,
        free: vec![Vec::new(); 16],
        ..Default::default()
    };
    // sequential walk
    let mut off = DAT_HEADER;
    let flen = buf.len() as u64;
    let mut ok = true;
    let mut index: HashMap<u64, usize> = HashMap::new();
    while off < flen {
        let (sz8, l1) = match vu64_decode(buf, off as usize) {
            Some(x) => x,
            None => {
                complaints.push(format!("{what}: slot header truncated at {off}"));
                ok = false;
                break;
            }
        };
        let size = sz8.wrapping_mul(8);
        if size == 0 {
            complaints.push(format!(
                "{what}: zero-size slot at {off} (gap: bytes [{off},{flen}) belong to no slot)"
            ));
            ok = false;
            break;
        }
        if !legal_slot_size(size) {
            complaints.push(format!("{what}: slot at {off} has illegal size {size}"));
        }
        if off.saturating_add(size) > flen {
            complaints.push(format!(
                "{what}: slot at {off} size {size} runs past end of file {flen}"
            ));
            ok = false;
            break;
        }
        let len_field = vu64_decode(buf, off as usize + l1).map(|x| x.0).unwrap_or(0);
        index.insert(off, t.slots.len());
        t.slots.push(Slot {
            off,
            size,
            kind: SlotKind::Orphan,
            len_field,
        });
        off += size;
    }
    t.tiling_ok = ok;
    // free lists
    let mut on_free: HashMap<u64, usize> = HashMap::new();
    for ci in 0..16usize {
        let mut cur = rd_u64(buf, heads_at + 8 * ci as u64);
        let mut seen: HashSet<u64> = HashSet::new();
        while cur != 0 {
            if !seen.insert(cur) {
                complaints.push(format!("{what}: free list {ci} has a cycle at {cur}"));
                break;
            }
            if cur < DAT_HEADER || cur >= flen || cur % 8 != 0 {
                complaints.push(format!("{what}: free list {ci} points outside the file: {cur}"));
                break;
            }
            let (sz8, l1) = match vu64_decode(buf, cur as usize) {
                Some(x) => x,
                None => {
                    complaints.push(format!("{what}: free slot header truncated at {cur}"));
                    break;
                }
            };
            let size = sz8.wrapping_mul(8);
            let marker = buf.get(cur as usize + l1).copied().unwrap_or(0xFF);
            if marker != 0 {
                complaints.push(format!(
                    "{what}: slot {cur} on free list {ci} has non-zero length marker {marker}"
                ));
            }
            let next = rd_u64(buf, cur + l1 as u64 + 1);
            if class_index(size) != ci || (ci == 15 && size < 1024) {
                complaints.push(format!(
                    "{what}: slot {cur} of size {size} is on free list {ci} (wrong class)"
                ));
            }
            if let Some(prev) = on_free.insert(cur, ci) {
                complaints.push(format!(
                    "{what}: slot {cur} is on two free lists ({prev} and {ci})"
                ));
            }
            match index.get(&cur) {
                Some(&i) => {
                    if t.slots[i].size != size {
                        complaints.push(format!("{what}: free slot {cur} size mismatch"));
                    }
                    t.slots[i].kind = SlotKind::Free(ci);
                }
                None => {
                    if ok {
                        complaints.push(format!(
                            "{what}: free list {ci} entry {cur} is not a slot boundary"
                        ));
                    }
                }
            }
            t.free[ci].push((cur, size));
            cur = next;
        }
    }
    // live
    for (&o, &cnt) in live.iter() {
        if cnt > 1 {
            complaints.push(format!("{what}: slot {o} is used by {cnt} live records"));
        }
        match index.get(&o) {
            Some(&i) => {
                if let SlotKind::Free(ci) = t.slots[i].kind {
                    complaints.push(format!(
                        "{what}: slot {o} is live and also on free list {ci}"
                    ));
                }
                t.slots[i].kind = SlotKind::Live;
            }
            None => {
                if ok {
                    complaints.push(format!("{what}: live record {o} is not a slot boundary"));
                }
            }
        }
    }
    for s in &t.slots {
        if s.kind == SlotKind::Orphan {
            complaints.push(format!(
                "{what}: slot at {} size {} is neither live nor on a free list",
                s.off, s.size
            ));
        }
    }
    t
}

/// decode the three files of one map.
pub fn decode(kt: Kt, htx: &[u8], key: &[u8], val: &[u8]) -> Decoded {
    let mut d = Decoded::default();
    let sig = kt.signature();
    // ---- headers
    if (htx.len() as u64) < HTX_HEADER {
        d.header
            .push(format!("htx: file shorter than its 128-byte header ({})", htx.len()));
        return d;
    }
    if &htx[0..8] != b"abysdbH\0" {
        d.header.push(format!("htx: signature1 {:?}", &htx[0..8]));
    }
    if htx[8..16] != sig {
        d.header
            .push(format!("htx: type signature {:?} != {:?}", &htx[8..16], sig));
    }
    let n = rd_u64(htx, 16);
    d.n_buckets = n;
    d.item_count = rd_u64(htx, 24);
    if n == 0 || !n.is_power_of_two() {
        d.header.push(format!("htx: bucket count {n} is not a power of two"));
        if n == 0 {
            return d;
        }
    }
    let table_end = HTX_HEADER + 8 * n;
    if (htx.len() as u64) < table_end {
        d.header.push(format!(
            "htx: file length {} shorter than header + bucket table {}",
            htx.len(),
            table_end
        ));
        return d;
    }
    let key_ok = check_dat_header(key, b"abysdbK\0", &sig, "key", &mut d.header);
    let val_ok = check_dat_header(val, b"abysdbV\0", &sig, "val", &mut d.header);
    if !key_ok || !val_ok {
        return d;
    }
    if mode() == Mode::Off {
        // the crate is built with another record format or another hash: only the table header
        // (bucket count, item count) means the same; the records are not walked
        return d;
    }
    // ---- chains
    let klen = key.len() as u64;
    let vlen = val.len() as u64;
    let mut seen_key_off: HashSet<u64> = HashSet::new();
    let mut seen_keys: HashSet<Vec<u8>> = HashSet::new();
    let mut live_key: HashMap<u64, u64> = HashMap::new();
    let mut live_val: HashMap<u64, u64> = HashMap::new();
    let mut seen_ints: BTreeSet<u64> = BTreeSet::new();
    for b in 0..n {
        let head = rd_u64(htx, HTX_HEADER + 8 * b);
        if head == 0 {
            continue;
        }
        d.nonempty_buckets += 1;
        // bitmap
        let bit_byte = table_end + b / 8;
        let byte = htx.get(bit_byte as usize).copied().unwrap_or(0);
        if byte & (1 << (b % 8)) == 0 && mode() == Mode::Full {
            d.structure.push(format!(
                "bucket {b} is non-empty but its occupancy bit is clear"
            ));
        }
        let mut cur = head;
        let mut pos = 0usize;
        while cur != 0 {
            if cur < DAT_HEADER || cur >= klen || cur % 8 != 0 {
                d.structure
                    .push(format!("bucket {b}: chain link {cur} outside the key file"));
                break;
            }
            if !seen_key_off.insert(cur) {
                d.structure.push(format!(
                    "bucket {b}: key record {cur} reached twice (cycle or shared chain)"
                ));
                break;
            }
            let (ksize, kbytes, voff, next, kenc) = match parse_key_record(key, cur) {
                Ok(x) => x,
                Err(e) => {
                    d.structure.push(format!("bucket {b}: key record {cur}: {e}"));
                    break;
                }
            };
            *live_key.entry(cur).or_insert(0) += 1;
            if ksize == 0 || kenc > ksize {
                d.structure.push(format!(
                    "key record {cur}: encoded length {kenc} exceeds its slot {ksize}"
                ));
            }
            if n.is_power_of_two() && bucket_of(&kbytes, n) != b {
                d.structure.push(format!(
                    "key {} at {cur} is chained in bucket {b} but hashes to {}",
                    crate::types::hex(&kbytes[..kbytes.len().min(16)]),
                    bucket_of(&kbytes, n)
                ));
            }
            let dup = if kt == Kt::Vu64 {
                match vu64_decode(&kbytes, 0) {
                    Some((v, l)) if l == kbytes.len() => !seen_ints.insert(v),
                    _ => !seen_keys.insert(kbytes.clone()),
                }
            } else {
                !seen_keys.insert(kbytes.clone())
            };
            if dup {
                d.structure.push(format!(
                    "key {} appears twice",
                    crate::types::hex(&kbytes[..kbytes.len().min(16)])
                ));
            }
            // value record
            let mut value = None;
            let mut vsize = 0;
            let mut venc = 0;
            if voff < DAT_HEADER || voff >= vlen || voff % 8 != 0 {
                d.structure.push(format!(
                    "key record {cur}: value offset {voff} outside the value file ({vlen})"
                ));
            } else {
                match parse_val_record(val, voff) {
                    Ok((sz, v, enc)) => {
                        vsize = sz;
                        venc = enc;
                        if sz == 0 || enc > sz || voff.saturating_add(sz) > vlen {
                            d.structure.push(format!(
                                "value record {voff}: encoded length {enc} exceeds its slot {sz} / file {vlen}"
                            ));
                        }
                        value = Some(v);
                    }
                    Err(e) => d
                        .structure
                        .push(format!("key record {cur}: value record {voff}: {e}")),
                }
                let c = live_val.entry(voff).or_insert(0);
                *c += 1;
                if *c > 1 {
                    d.structure
                        .push(format!("value record {voff} is shared by two keys"));
                }
            }
            d.entries.push(Entry {
                bucket: b,
                chain_pos: pos,
                key_off: cur,
                key_size: ksize,
                key: kbytes,
                val_off: voff,
                val_size: vsize,
                next,
                value,
                key_enc: kenc,
                val_enc: venc,
            });
            pos += 1;
            cur = next;
        }
        d.max_chain = d.max_chain.max(pos);
    }
    if d.item_count != d.entries.len() as u64 {
        d.structure.push(format!(
            "stored item count {} != {} reachable keys",
            d.item_count,
            d.entries.len()
        ));
    }
    // ---- tiling
    let mut tl = Vec::new();
    d.key_file = tile_file(key, KEY_FREE_HEADS, &live_key, "key", &mut tl);
    d.val_file = tile_file(val, VAL_FREE_HEADS, &live_val, "val", &mut tl);
    d.tiling = tl;
    d
}

/// read the three files of map `name` in `dir` and decode.
pub fn decode_dir(dir: &std::path::Path, name: &str, kt: Kt) -> std::io::Result<Decoded> {
    let htx = std::fs::read(dir.join(format!("{name}.htx")))?;
    let key = std::fs::read(dir.join(format!("{name}.key")))?;
    let val = std::fs::read(dir.join(format!("{name}.val")))?;
    Ok(decode(kt, &htx, &key, &val))
}

#[cfg(test)]
mod tests {
    use super::*;
    #[test]
    fn vu64_examples() {
        assert_eq!(vu64_encode(0x0f0f), vec![0x8F, 0x3c]);
        assert_eq!(
            vu64_encode(0x0f0f_f0f0_0f0f_f0f0),
            vec![0xFF, 0xf0, 0xf0, 0x0f, 0x0f, 0xf0, 0xf0, 0x0f, 0x0f]
        );
        for &v in &[
            0u64,
            1,
            127,
            128,
            16383,
            16384,
            (1 << 21) - 1,
            1 << 21,
            (1 << 28) - 1,
            1 << 28,
            (1 << 35) - 1,
            1 << 35,
            (1 << 42) - 1,
            1 << 42,
            (1 << 49) - 1,
            1 << 49,
            (1 << 56) - 1,
            1 << 56,
            u64::MAX,
        ] {
            let e = vu64_encode(v);
            assert_eq!(e.len() as u32, vu64_len(v));
            assert_eq!(vu64_decode(&e, 0), Some((v, e.len())), "v={v}");
        }
    }
}
