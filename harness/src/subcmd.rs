//! property specific sub commands of the vp binary (child-process observers)
use crate::exec::{Ctx, Exec, Failure};
use crate::types::History;
use serde::{Deserialize, Serialize};
use std::cell::Cell;
use std::path::PathBuf;

#[derive(Serialize, Deserialize, Clone, Debug)]
pub struct RunHistoryReq {
    pub dir: String,
    pub history: History,
}

#[derive(Serialize, Deserialize, Clone, Debug)]
pub struct RunHistoryOut {
    pub failure: Option<Failure>,
}

pub fn dispatch(args: &[String]) -> Option<i32> {
    match args.get(1).map(|s| s.as_str()) {
        Some("run-history") => {
            crate::runner::install_panic_hook();
            let txt = std::fs::read_to_string(&args[2]).ok()?;
            let req: RunHistoryReq = serde_json::from_str(&txt).ok()?;
            let _ = std::fs::create_dir_all(&req.dir);
            let ctx = Ctx {
                dir: PathBuf::from(&req.dir),
                exe: None,
                cur_op: Cell::new(0),
            };
            let r = crate::runner::guarded(&ctx, || {
                let mut e = Exec::new(&req.history, &ctx)?;
                e.run()?;
                Ok(e.rep.clone())
            });
            let out = RunHistoryOut { failure: r.err() };
            println!("{}", serde_json::to_string(&out).unwrap());
            Some(0)
        }
        Some("mkgolden") => Some(crate::props::c12::mkgolden(std::path::Path::new(&args[2]))),
        Some("c16-child") => Some(crate::props::c16::child_main(&args[2])),
        Some("c03-child") => Some(crate::props::c03::child_main(&args[2])),
        _ => None,
    }
}
