//! property specific sub commands of the vp binary (child-process observers)
use crate::exec::{Ctx, Exec, Failure};
use crate::types::History;
use serde::{Deserialize, Serialize};
use std::cell::Cell;
use std::path::PathBuf;

#[derive(Serialize, Deserialize, Clone, Debug)]
pub struct RunHistoryReq {
    pub dir: String,
    pub history: History,
}

#[derive(Serialize, Deserialize, Clone, Debug)]
pub struct RunHistoryOut {
    pub failure: Option<Failure>,
}

pub fn dispatch(args: &[String]) -> Option<i32> {
    match args.get(1).map(|s| s.as_str()) {
        Some("run-history") => {
            crate::runner::install_panic_hook();
            let txt = std::fs::read_to_string(&args[2]).ok()?;
            let req: RunHistoryReq = serde_json::from_str(&txt).ok()?;
            let _ = std::fs::create_dir_all(&req.dir);
            let ctx = Ctx {
                dir: PathBuf::from(&req.dir),
                exe: None,
                cur_op: Cell::new(0),
            };
            let r = crate::runner::guarded(&ctx, || {
                let mut e = Exec::new(&req.history, &ctx)?;
                e.run()?;
                Ok(e.rep.clone())
            });
            let out = RunHistoryOut { failure: r.err() };
            println!("{}", serde_json::to_string(&out).unwrap());
            Some(0)
        }
        Some("fuzz-case") => {
            // vp fuzz-case <artifact> <out.json>: libFuzzer input -> JSON replay file of C01
            let data = std::fs::read(&args[2]).ok()?;
            let h = match crate::fuzzdec::history_from_bytes(&data) {
                Some(h) => h,
                None => {
                    eprintln!("input too short to describe a history");
                    return Some(3);
                }
            };
            let v = serde_json::json!({
                "property": "C01",
                "profile": "strict",
                "failure": {"kind": "fuzz", "op": null, "msg": format!("libFuzzer artifact {}", args[2])},
                "case": h,
            });
            std::fs::write(&args[3], serde_json::to_string_pretty(&v).unwrap()).ok()?;
            Some(0)
        }
        Some("evidence-merge") => {
            // vp evidence-merge <evidence.json> <key> <json-file>: coverage[key] = contents
            let mut ev: serde_json::Value = serde_json::from_str(&std::fs::read_to_string(&args[2]).ok()?).ok()?;
            let add: serde_json::Value = serde_json::from_str(&std::fs::read_to_string(&args[4]).ok()?).ok()?;
            if let Some(n) = add.get("executions").and_then(|x| x.as_u64()) {
                let cur = ev["coverage"]["evaluations"].as_u64().unwrap_or(0);
                ev["coverage"]["evaluations"] = serde_json::json!(cur + n);
            }
            if let Some(n) = add.get("violations").and_then(|x| x.as_u64()) {
                let cur = ev["violations"].as_u64().unwrap_or(0);
                ev["violations"] = serde_json::json!(cur + n);
            }
            ev["coverage"][&args[3]] = add;
            std::fs::write(&args[2], serde_json::to_string_pretty(&ev).unwrap()).ok()?;
            Some(0)
        }
        Some("mkgolden") => Some(crate::props::c12::mkgolden(std::path::Path::new(&args[2]))),
        Some("c16-child") => Some(crate::props::c16::child_main(&args[2])),
        Some("c03-child") => Some(crate::props::c03::child_main(&args[2])),
        _ => None,
    }
}
