//! property specific sub commands of the vp binary (child-process observers)
pub fn dispatch(_args: &[String]) -> Option<i32> {
    None
}
