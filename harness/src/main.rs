use serde_json::Value;
use std::path::PathBuf;
use vpcore::props;
use vpcore::runner::{self, Tier};

/// Allocator wrapper: with VP_MISALIGN=1 in the environment (checked once at the start of main)
/// byte buffers (alignment-1 requests, e.g. Vec<u8> key buffers) are placed at addresses 8n+1.
/// Rust allows any address for alignment 1; code whose results depend on the address of a key
/// buffer (C12: placement depends only on the key bytes and the table size) shows up here.
struct Misalign;
static MISALIGN_ON: std::sync::atomic::AtomicBool = std::sync::atomic::AtomicBool::new(false);

unsafe impl std::alloc::GlobalAlloc for Misalign {
    unsafe fn alloc(&self, l: std::alloc::Layout) -> *mut u8 {
        if l.align() == 1 && l.size() > 0 && l.size() <= (1 << 20) && MISALIGN_ON.load(std::sync::atomic::Ordering::Relaxed) {
            let l2 = std::alloc::Layout::from_size_align_unchecked(l.size() + 8, 8);
            let p = std::alloc::System.alloc(l2);
            if p.is_null() {
                return p;
            }
            return p.add(1);
        }
        std::alloc::System.alloc(l)
    }
    unsafe fn dealloc(&self, p: *mut u8, l: std::alloc::Layout) {
        if l.align() == 1 && (p as usize) & 7 == 1 {
            let l2 = std::alloc::Layout::from_size_align_unchecked(l.size() + 8, 8);
            return std::alloc::System.dealloc(p.sub(1), l2);
        }
        std::alloc::System.dealloc(p, l)
    }
}

#[global_allocator]
static GLOBAL: Misalign = Misalign;

fn usage() -> ! {
    eprintln!(
        "usage: vp check <Cxx> <quick|thorough> | vp replay <file> | vp worker <Cxx> <tier> <seed> <scratch> |\n       vp replay-inner <file> | vp verify-dir <req.json> | vp gen <Cxx> <tier> <index> | vp one <Cxx> <tier> <index>"
    );
    std::process::exit(2)
}

fn tier_of(s: &str) -> Tier {
    match s {
        "quick" => Tier::Quick,
        "thorough" => Tier::Thorough,
        _ => usage(),
    }
}

fn seed_env() -> u64 {
    std::env::var("VERIF_SEED")
        .ok()
        .and_then(|s| s.trim().parse::<i64>().ok().map(|v| v as u64).or_else(|| s.trim().parse::<u64>().ok()))
        .unwrap_or(20260926)
}

fn main() {
    if std::env::var_os("VP_MISALIGN").is_some() {
        MISALIGN_ON.store(true, std::sync::atomic::Ordering::Relaxed);
    }
    let args: Vec<String> = std::env::args().collect();
    if args.len() < 2 {
        usage();
    }
    match args[1].as_str() {
        "check" => {
            if args.len() < 4 {
                usage();
            }
            let prop = props::get(&args[2]).unwrap_or_else(|| {
                eprintln!("unknown property {}", args[2]);
                std::process::exit(2)
            });
            let code = runner::check_main(prop.as_ref(), tier_of(&args[3]), seed_env());
            std::process::exit(code);
        }
        "worker" => {
            if args.len() < 6 {
                usage();
            }
            let prop = props::get(&args[2]).unwrap_or_else(|| usage());
            let seed: u64 = args[4].parse().unwrap_or(0);
            runner::worker_main(prop.as_ref(), tier_of(&args[3]), seed, PathBuf::from(&args[5]));
        }
        "replay" | "replay-inner" => {
            if args.len() < 3 {
                usage();
            }
            let txt = std::fs::read_to_string(&args[2]).unwrap_or_else(|e| {
                eprintln!("cannot read {}: {e}", args[2]);
                std::process::exit(2)
            });
            let v: Value = serde_json::from_str(&txt).unwrap_or_else(|e| {
                eprintln!("bad json: {e}");
                std::process::exit(2)
            });
            let id = v["property"].as_str().unwrap_or("").to_string();
            let prop = props::get(&id).unwrap_or_else(|| {
                eprintln!("unknown property {id}");
                std::process::exit(2)
            });
            if args[1] == "replay-inner" {
                std::process::exit(runner::replay_inner(prop.as_ref(), &v["case"]));
            }
            // outer replay: child with the recorded profile under a time limit
            let profile = v["profile"].as_str().unwrap_or("strict").to_string();
            let r = runner::run_case_file_in_child(&profile, std::path::Path::new(&args[2]), 300);
            match r {
                runner::ChildRun::Pass => {
                    println!("replay passed: property={id}");
                    std::process::exit(0)
                }
                other => {
                    println!("VIOLATION property={id} replay={}", args[2]);
                    eprintln!("  {:?}", other);
                    std::process::exit(1)
                }
            }
        }
        "verify-dir" => {
            runner::install_panic_hook();
            let txt = std::fs::read_to_string(&args[2]).expect("request file");
            let req: vpcore::childproc::VerifyReq = serde_json::from_str(&txt).expect("request json");
            match vpcore::childproc::verify_dir(&req) {
                Ok(o) => {
                    println!("{}", serde_json::to_string(&o).unwrap());
                }
                Err(e) => {
                    println!("{e}");
                    std::process::exit(1);
                }
            }
        }
        "gen" => {
            let prop = props::get(&args[2]).unwrap_or_else(|| usage());
            let idx: u64 = args[4].parse().unwrap_or(0);
            let v = prop.gen_case(tier_of(&args[3]), seed_env(), idx);
            println!("{}", serde_json::to_string_pretty(&v).unwrap());
        }
        "one" => {
            runner::install_panic_hook();
            let prop = props::get(&args[2]).unwrap_or_else(|| usage());
            let idx: u64 = args[4].parse().unwrap_or(0);
            let base = runner::scratch_base().join(format!("vp-one-{}", std::process::id()));
            let _ = std::fs::create_dir_all(&base);
            let w = runner::WCtx::new(
                base.clone(),
                std::env::current_exe().unwrap(),
                runner::current_profile(),
                runner::verif_root(),
            );
            let out = prop.run_case(tier_of(&args[3]), seed_env(), idx, &w);
            let _ = std::fs::remove_dir_all(&base);
            println!("{}", serde_json::to_string_pretty(&out).unwrap());
        }
        _ => {
            // extension point for property specific sub commands
            if let Some(code) = vpcore::subcmd::dispatch(&args) {
                std::process::exit(code);
            }
            usage()
        }
    }
}
