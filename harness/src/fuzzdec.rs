//! bytes -> History for the coverage-guided fuzz target (and for converting crash artifacts
//! into JSON replay files).  Hand-decoded with simple byte reads (no derive).
use crate::decoder::vu64_encode;
use crate::gen::TABLE_SIZES;
use crate::types::*;

struct Rd<'a> {
    d: &'a [u8],
    p: usize,
}

impl<'a> Rd<'a> {
    fn u8(&mut self) -> Option<u8> {
        let b = *self.d.get(self.p)?;
        self.p += 1;
        Some(b)
    }
    fn u16(&mut self) -> Option<u16> {
        Some(self.u8()? as u16 | ((self.u8()? as u16) << 8))
    }
    fn u64(&mut self) -> Option<u64> {
        let mut v = 0u64;
        for i in 0..8 {
            v |= (self.u8()? as u64) << (8 * i);
        }
        Some(v)
    }
}

const VAL_LENS: [u32; 32] = [
    0, 1, 13, 14, 15, 21, 22, 23, 29, 30, 31, 45, 46, 47, 61, 62, 63, 125, 126, 253, 254, 509, 510, 1020, 1021, 1022, 1100, 2047,
    4095, 4096, 4097, 16400,
];

/// None when the input is too short to describe a map
pub fn history_from_bytes(data: &[u8]) -> Option<History> {
    let mut r = Rd { d: data, p: 0 };
    let kt = Kt::ALL[(r.u8()? % 5) as usize];
    let b = r.u8()?;
    let buckets = if b & 0x80 != 0 {
        Buckets::Capacity(TABLE_SIZES[(b as usize & 0x7f) % 17])
    } else {
        Buckets::BucketsSize(TABLE_SIZES[(b as usize) % 17])
    };
    let nk = (r.u8()? % 12) as usize + 1;
    let mut keys = Vec::new();
    for _ in 0..nk {
        let k = match kt {
            Kt::Bytes => {
                let l = r.u8()? % 48;
                let s = r.u8()?;
                if l == 0 {
                    Key::B(vec![])
                } else {
                    Key::P { len: l as u32, seed: s as u32 }
                }
            }
            Kt::String => {
                let l = r.u8()? % 48;
                let s = r.u8()?;
                if l == 0 {
                    Key::B(vec![])
                } else {
                    Key::S { len: l as u32, seed: s as u32 }
                }
            }
            Kt::U64 | Kt::I64 => {
                let sh = r.u8()? % 64;
                Key::B((r.u64()? >> sh).to_le_bytes().to_vec())
            }
            Kt::Vu64 => {
                let sh = r.u8()? % 64;
                Key::B(vu64_encode(r.u64()? >> sh))
            }
        };
        keys.push(k);
    }
    let keys = crate::gen::dedup_keys(keys);
    let params = Params::plain(buckets);
    let mut ops = Vec::new();
    while let Some(c) = r.u8() {
        let k = (c >> 4) as u32 % keys.len() as u32;
        let op = match c & 0x0f {
            4 => {
                // value derived from the stored one (append / cut / identical / one byte / prepend / doubled)
                let l = r.u8().unwrap_or(0);
                Op::PutRel { k, mode: l % 6, n: (l as u16) * 257 }
            }
            0..=3 => {
                let l = r.u8().unwrap_or(0);
                let len = if l & 0x80 != 0 {
                    VAL_LENS[(l & 0x1f) as usize]
                } else {
                    (l & 0x7f) as u32
                };
                Op::Put { k, v: Val::P { len, seed: (c & 3) as u32 } }
            }
            5 | 6 => Op::Get { k },
            7..=9 => Op::Del { k },
            10 => Op::Inc { k },
            11 => Op::Len,
            12 => Op::Flush,
            13 => Op::Iter { f: (c >> 4) % 7, take: None },
            14 => Op::Reopen { params, child: false, order: (c >> 4) % 4 },
            _ => Op::SyncData,
        };
        ops.push(op);
        if ops.len() >= 400 {
            break;
        }
    }
    Some(History {
        maps: vec![MapSpec {
            name: "m".into(),
            kt,
            params,
            keys,
                late: false,
            }],
        ops,
        obs: Obs {
            decode_at_close: true,
            decode_at_sync: true,
            tiling: true,
            ..Default::default()
        },
        excluded: 0,
        quiet_prefix: 0,
    })
}
