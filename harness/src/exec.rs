//! Engine E1: executes a `History` against the real crate and a BTreeMap model, comparing every
//! return value, with optional observers (decoder, snapshots, io trace, tiling, statistics).
use crate::dbx::{open_map, IterOut, MapH, StatsOut};
use crate::decoder::{self, Decoded, SlotKind};
use crate::types::*;
use abyssiniandb::filedb::FileDb;
use std::cell::Cell;
use std::collections::{BTreeMap, HashMap};
use std::path::{Path, PathBuf};

#[derive(Debug, Clone, serde::Serialize, serde::Deserialize)]
pub struct Failure {
    /// mismatch | error | panic | structure | tiling | stats | durability | iotrace | isolation | child
    pub kind: String,
    pub op: Option<usize>,
    pub msg: String,
}

impl Failure {
    pub fn new(kind: &str, op: Option<usize>, msg: String) -> Failure {
        Failure {
            kind: kind.to_string(),
            op,
            msg,
        }
    }
    /// short stable signature used to match known findings
    pub fn signature(&self) -> String {
        let m: String = self.msg.chars().take(60).collect();
        format!("{}:{}", self.kind, m)
    }
}

#[derive(Debug, Clone, Default)]
pub struct Report {
    pub labels: BTreeMap<String, u64>,
}

impl Report {
    pub fn bump(&mut self, l: &str) {
        *self.labels.entry(l.to_string()).or_insert(0) += 1;
    }
    pub fn add(&mut self, l: &str, n: u64) {
        *self.labels.entry(l.to_string()).or_insert(0) += n;
    }
    pub fn max(&mut self, l: &str, n: u64) {
        let e = self.labels.entry(l.to_string()).or_insert(0);
        if n > *e {
            *e = n;
        }
    }
    pub fn get(&self, l: &str) -> u64 {
        self.labels.get(l).copied().unwrap_or(0)
    }
    pub fn has(&self, l: &str) -> bool {
        self.get(l) > 0
    }
}

pub struct Ctx {
    /// scratch directory of this case (exists, empty)
    pub dir: PathBuf,
    /// path of the vp executable for child-process observers
    pub exe: Option<PathBuf>,
    /// index of the op being executed (readable after a panic)
    pub cur_op: Cell<usize>,
}

#[derive(Clone, Debug, Default)]
struct SizeTrack {
    peak_live: HashMap<u64, u64>,
    max_alloc_per_call: u64,
}

struct MapSt {
    name: String,
    kt: Kt,
    keys: Vec<Vec<u8>>,
    params: Params,
    handles: Vec<Box<dyn MapH>>,
    cur: usize,
    model: BTreeMap<Vec<u8>, Vec<u8>>,
    prev: Option<Decoded>,
    track_key: SizeTrack,
    track_val: SizeTrack,
    /// hash of the on-disk bytes at the last OS sync, per file (htx,key,val)
    synced: [Option<u64>; 3],
    updates_since_sync: u64,
    file_sig: Option<[u64; 3]>,
    /// the map's files exist (it was opened at least once)
    ever_opened: bool,
    /// number of update ops applied to this map
    upd: u64,
}

#[cfg(feature = "hooks")]
fn take_trace() -> Vec<(String, &'static str)> {
    abyssiniandb::filedb::verif::take_io_trace()
}
#[cfg(not(feature = "hooks"))]
fn take_trace() -> Vec<(String, &'static str)> {
    Vec::new()
}

/// progress counter of this process (ops executed, transitions taken, ...): the watchdog tells a
/// hang (no progress) from a slow case (progress) by it
pub static PROGRESS: std::sync::atomic::AtomicU64 = std::sync::atomic::AtomicU64::new(0);

pub fn tick() {
    PROGRESS.fetch_add(1, std::sync::atomic::Ordering::Relaxed);
}

pub fn fnv(data: &[u8]) -> u64 {
    let mut h: u64 = 0xcbf29ce484222325;
    for chunk in data.chunks(8) {
        let mut a = [0u8; 8];
        a[..chunk.len()].copy_from_slice(chunk);
        h ^= u64::from_le_bytes(a);
        h = h.wrapping_mul(0x100000001b3);
        h ^= h >> 29;
    }
    h ^= (data.len() as u64).wrapping_mul(0x9E3779B97F4A7C15);
    // final avalanche
    h ^= h >> 32;
    h = h.wrapping_mul(0xD6E8FEB86659FD93);
    h ^= h >> 32;
    h
}

pub fn file_names(name: &str) -> [String; 3] {
    [
        format!("{name}.htx"),
        format!("{name}.key"),
        format!("{name}.val"),
    ]
}

pub fn read_files(dir: &Path, name: &str) -> std::io::Result<[Vec<u8>; 3]> {
    let n = file_names(name);
    Ok([
        std::fs::read(dir.join(&n[0]))?,
        std::fs::read(dir.join(&n[1]))?,
        std::fs::read(dir.join(&n[2]))?,
    ])
}

fn lossy(v: &[u8]) -> String {
    String::from_utf8_lossy(v).to_string()
}

fn short(v: &Option<Vec<u8>>) -> String {
    match v {
        None => "None".to_string(),
        Some(b) => {
            if b.len() <= 24 {
                format!("Some({})", hex(b))
            } else {
                format!("Some(len {} fnv {:016x} head {})", b.len(), fnv(b), hex(&b[..12]))
            }
        }
    }
}

macro_rules! fail {
    ($kind:expr, $op:expr, $($arg:tt)*) => {
        return Err(Failure::new($kind, $op, format!($($arg)*)))
    };
}

pub struct Exec<'a> {
    pub h: &'a History,
    pub ctx: &'a Ctx,
    dbs: Vec<FileDb>,
    maps: Vec<MapSt>,
    curm: usize,
    pub rep: Report,
    /// iterators kept alive across calls: (map index, that map's update count at creation, iterator)
    held_iters: Vec<(usize, u64, Box<dyn crate::dbx::LiveIter>)>,
    /// symbolic link the database was opened through (removed by Op::HidePath)
    link: Option<std::path::PathBuf>,
    /// called right before a flush/sync call (op index)
    pub on_sync_begin: Option<Box<dyn FnMut(usize) + 'a>>,
    /// called right after a flush/sync call returned Ok: (op index, names of the files that had to be OS-synced)
    pub on_sync_end: Option<Box<dyn FnMut(usize, &[String]) + 'a>>,
}

impl<'a> Exec<'a> {
    pub fn new(h: &'a History, ctx: &'a Ctx) -> Result<Exec<'a>, Failure> {
        let mut e = Exec {
            h,
            ctx,
            dbs: Vec::new(),
            maps: Vec::new(),
            curm: 0,
            rep: Report::default(),
            held_iters: Vec::new(),
            link: None,
            on_sync_begin: None,
            on_sync_end: None,
        };
        if h.excluded > 0 {
            e.rep.add("excluded_draws", h.excluded);
        }
        let mut open_path = ctx.dir.clone();
        if h.ops.iter().any(|op| matches!(op, Op::HidePath)) {
            // open through a symbolic link that is removed later: the path given at open stops
            // resolving while the files stay where they are
            let mut l = ctx.dir.clone().into_os_string();
            l.push("-lnk");
            let l = std::path::PathBuf::from(l);
            let _ = std::fs::remove_file(&l);
            let _ = std::fs::create_dir_all(&ctx.dir);
            if std::os::unix::fs::symlink(&ctx.dir, &l).is_ok() {
                open_path = l.clone();
                e.link = Some(l);
            }
        }
        let db = match abyssiniandb::open_file(&open_path) {
            Ok(d) => d,
            Err(err) => fail!("error", None, "open_file: {err}"),
        };
        e.dbs.push(db);
        for ms in &h.maps {
            let keys: Vec<Vec<u8>> = ms.keys.iter().map(|k| k.bytes()).collect();
            let mut handles: Vec<Box<dyn MapH>> = Vec::new();
            if !ms.late {
                match open_map(&e.dbs[0], &ms.name, ms.kt, &ms.params) {
                    Ok(m) => handles.push(m),
                    Err(err) => fail!("error", None, "open map {}: {err}", ms.name),
                }
            }
            e.maps.push(MapSt {
                name: ms.name.clone(),
                kt: ms.kt,
                keys,
                params: ms.params,
                handles,
                cur: 0,
                model: BTreeMap::new(),
                prev: None,
                track_key: SizeTrack::default(),
                track_val: SizeTrack::default(),
                synced: [None; 3],
                updates_since_sync: 1, // creation counts as an update
                file_sig: None,
                ever_opened: !ms.late,
                upd: 0,
            });
        }
        Ok(e)
    }

    /// seed the model of map `m` (used when the directory already holds an image, C12)
    pub fn seed_model(&mut self, m: usize, model: BTreeMap<Vec<u8>, Vec<u8>>) {
        self.maps[m].model = model;
    }

    pub fn model(&self, m: usize) -> &BTreeMap<Vec<u8>, Vec<u8>> {
        &self.maps[m].model
    }

    fn key(&self, k: u32) -> Vec<u8> {
        let ms = &self.maps[self.curm];
        ms.keys[k as usize % ms.keys.len()].clone()
    }

    /// open a late map on first use, through the most recently cloned database handle
    fn ensure_open(&mut self, mi: usize, o: Option<usize>) -> Result<(), Failure> {
        if !self.maps[mi].handles.is_empty() {
            return Ok(());
        }
        let db = self.dbs[self.dbs.len() - 1].clone();
        let (name, kt, params) = (self.maps[mi].name.clone(), self.maps[mi].kt, self.maps[mi].params);
        match open_map(&db, &name, kt, &params) {
            Ok(m) => {
                self.maps[mi].handles.push(m);
                self.maps[mi].cur = 0;
                self.maps[mi].ever_opened = true;
                if self.dbs.len() > 1 {
                    self.rep.bump("late_map_opened_through_db_clone");
                }
                Ok(())
            }
            Err(err) => fail!("error", o, "opening map {name}: {err}"),
        }
    }

    fn hnd(&mut self) -> &mut Box<dyn MapH> {
        let ms = &mut self.maps[self.curm];
        let c = ms.cur % ms.handles.len();
        &mut ms.handles[c]
    }

    pub fn run(&mut self) -> Result<(), Failure> {
        let ops = &self.h.ops;
        for (i, op) in ops.iter().enumerate() {
            self.ctx.cur_op.set(i);
            self.step(i, op)?;
        }
        self.ctx.cur_op.set(ops.len());
        self.finish()
    }

    fn step(&mut self, i: usize, op: &Op) -> Result<(), Failure> {
        let o = Some(i);
        tick();
        let mut obs = self.h.obs.clone();
        if i < self.h.quiet_prefix {
            obs.decode_every_op = false;
            obs.full_compare_every_op = false;
            obs.isolation = false;
        }
        if self.dbs.is_empty() {
            // every database object was dropped (Op::DropDb): what needs one is skipped until the reopen
            let skip = match op {
                Op::Reacquire | Op::ReacquireP { .. } | Op::CloneDb | Op::DbSyncData | Op::DbSyncAll | Op::DropAll | Op::DropDb => true,
                Op::Use { m } => self.maps[*m as usize % self.maps.len()].handles.is_empty(),
                _ => false,
            };
            if skip {
                return Ok(());
            }
        }
        if !matches!(
            op,
            Op::Use { .. } | Op::Reopen { .. } | Op::DropAll | Op::DbSyncData | Op::DbSyncAll
        ) {
            self.ensure_open(self.curm, o)?;
        }
        if op.is_update() {
            self.maps[self.curm].upd += 1;
        }
        if obs.isolation && op.is_update() {
            self.isolation_before()?;
        }
        match op {
            Op::Put { k, v } => {
                let key = self.key(*k);
                let val = v.bytes();
                self.note_put(&key, &val);
                match self.hnd().put(&key, &val) {
                    Ok(()) => {}
                    Err(e) => fail!("error", o, "put returned Err: {e}"),
                }
                self.maps[self.curm].model.insert(key, val);
                self.maps[self.curm].updates_since_sync += 1;
            }
            Op::Burst { k, v, n } => {
                let key = self.key(*k);
                let val = v.bytes();
                self.note_put(&key, &val);
                for j in 0..*n {
                    if j % 1024 == 0 {
                        tick();
                    }
                    if let Err(e) = self.hnd().put(&key, &val) {
                        fail!("error", o, "put #{j} of a burst of {n} identical puts returned Err: {e}");
                    }
                }
                self.maps[self.curm].model.insert(key, val);
                self.maps[self.curm].updates_since_sync += 1;
                self.rep.bump("burst");
                if *n >= 65535 {
                    self.rep.bump("burst_ge_65535");
                }
            }
            Op::PutStr { k, v } => {
                let key = self.key(*k);
                let s = lossy(&v.bytes());
                self.note_put(&key, s.as_bytes());
                match self.hnd().put_string(&key, &s) {
                    Ok(()) => {}
                    Err(e) => fail!("error", o, "put_string returned Err: {e}"),
                }
                self.maps[self.curm].model.insert(key, s.into_bytes());
                self.maps[self.curm].updates_since_sync += 1;
                self.rep.bump("string_call");
            }
            Op::Get { k } => {
                let key = self.key(*k);
                let exp = self.maps[self.curm].model.get(&key).cloned();
                let got = match self.hnd().get(&key) {
                    Ok(x) => x,
                    Err(e) => fail!("error", o, "get returned Err: {e}"),
                };
                if exp.is_none() {
                    self.rep.bump("get_absent");
                }
                if got != exp {
                    fail!(
                        "mismatch",
                        o,
                        "get({}) = {} but model says {}",
                        hex(&key[..key.len().min(16)]),
                        short(&got),
                        short(&exp)
                    );
                }
            }
            Op::GetStr { k } => {
                let key = self.key(*k);
                let exp = self.maps[self.curm].model.get(&key).map(|v| lossy(v));
                let got = match self.hnd().get_string(&key) {
                    Ok(x) => x,
                    Err(e) => fail!("error", o, "get_string returned Err: {e}"),
                };
                self.rep.bump("string_call");
                if got != exp {
                    fail!("mismatch", o, "get_string = {:?} but model says {:?}", got, exp);
                }
            }
            Op::Del { k } => {
                let key = self.key(*k);
                let exp = self.maps[self.curm].model.remove(&key);
                let got = match self.hnd().delete(&key) {
                    Ok(x) => x,
                    Err(e) => fail!("error", o, "delete returned Err: {e}"),
                };
                if exp.is_some() {
                    self.rep.bump("delete_present");
                    self.maps[self.curm].updates_since_sync += 1;
                }
                if got != exp {
                    fail!(
                        "mismatch",
                        o,
                        "delete({}) = {} but model says {}",
                        hex(&key[..key.len().min(16)]),
                        short(&got),
                        short(&exp)
                    );
                }
            }
            Op::DelStr { k } => {
                let key = self.key(*k);
                let exp = self.maps[self.curm].model.remove(&key);
                let got = match self.hnd().delete_string(&key) {
                    Ok(x) => x,
                    Err(e) => fail!("error", o, "delete_string returned Err: {e}"),
                };
                if exp.is_some() {
                    self.maps[self.curm].updates_since_sync += 1;
                }
                self.rep.bump("string_call");
                let exps = exp.map(|v| lossy(&v));
                if got != exps {
                    fail!("mismatch", o, "delete_string = {:?} but model says {:?}", got, exps);
                }
            }
            Op::Inc { k } => {
                let key = self.key(*k);
                let exp = self.maps[self.curm].model.contains_key(&key);
                let got = match self.hnd().includes(&key) {
                    Ok(x) => x,
                    Err(e) => fail!("error", o, "includes_key returned Err: {e}"),
                };
                if got != exp {
                    fail!("mismatch", o, "includes_key = {got} but model says {exp}");
                }
            }
            Op::Len => {
                let exp = self.maps[self.curm].model.len() as u64;
                let got = match self.hnd().len() {
                    Ok(x) => x,
                    Err(e) => fail!("error", o, "len returned Err: {e}"),
                };
                if got != exp {
                    fail!("mismatch", o, "len = {got} but model says {exp}");
                }
            }
            Op::IsEmpty => {
                let exp = self.maps[self.curm].model.is_empty();
                let got = match self.hnd().is_empty() {
                    Ok(x) => x,
                    Err(e) => fail!("error", o, "is_empty returned Err: {e}"),
                };
                if got != exp {
                    fail!("mismatch", o, "is_empty = {got} but model says {exp}");
                }
            }
            Op::BulkGet { ks } => {
                let keys: Vec<Vec<u8>> = ks.iter().map(|k| self.key(*k)).collect();
                let exp: Vec<Option<Vec<u8>>> = keys
                    .iter()
                    .map(|k| self.maps[self.curm].model.get(k).cloned())
                    .collect();
                let got = match self.hnd().bulk_get(&keys) {
                    Ok(x) => x,
                    Err(e) => fail!("error", o, "bulk_get returned Err: {e}"),
                };
                self.note_batch(&keys, &exp);
                if got != exp {
                    fail!("mismatch", o, "bulk_get: {}", diff_vec(&got, &exp));
                }
            }
            Op::BulkGetStr { ks } => {
                let keys: Vec<Vec<u8>> = ks.iter().map(|k| self.key(*k)).collect();
                let expb: Vec<Option<Vec<u8>>> = keys
                    .iter()
                    .map(|k| self.maps[self.curm].model.get(k).cloned())
                    .collect();
                let exp: Vec<Option<String>> =
                    expb.iter().map(|v| v.as_ref().map(|b| lossy(b))).collect();
                let got = match self.hnd().bulk_get_string(&keys) {
                    Ok(x) => x,
                    Err(e) => fail!("error", o, "bulk_get_string returned Err: {e}"),
                };
                self.note_batch(&keys, &expb);
                self.rep.bump("string_call");
                if got != exp {
                    fail!("mismatch", o, "bulk_get_string differs: got {:?} expected {:?}", trunc(&got), trunc(&exp));
                }
            }
            Op::BulkDel { ks } | Op::BulkDelStr { ks } => {
                let mut keys: Vec<Vec<u8>> = Vec::new();
                for k in ks {
                    let kb = self.key(*k);
                    if !keys.contains(&kb) {
                        keys.push(kb);
                    }
                }
                let exp: Vec<Option<Vec<u8>>> = keys
                    .iter()
                    .map(|k| self.maps[self.curm].model.remove(k))
                    .collect();
                self.note_batch(&keys, &exp);
                self.maps[self.curm].updates_since_sync += 1;
                if matches!(op, Op::BulkDel { .. }) {
                    let got = match self.hnd().bulk_delete(&keys) {
                        Ok(x) => x,
                        Err(e) => fail!("error", o, "bulk_delete returned Err: {e}"),
                    };
                    if got != exp {
                        fail!("mismatch", o, "bulk_delete: {}", diff_vec(&got, &exp));
                    }
                } else {
                    let got = match self.hnd().bulk_delete_string(&keys) {
                        Ok(x) => x,
                        Err(e) => fail!("error", o, "bulk_delete_string returned Err: {e}"),
                    };
                    self.rep.bump("string_call");
                    let exps: Vec<Option<String>> =
                        exp.iter().map(|v| v.as_ref().map(|b| lossy(b))).collect();
                    if got != exps {
                        fail!("mismatch", o, "bulk_delete_string differs: got {:?} expected {:?}", trunc(&got), trunc(&exps));
                    }
                }
            }
            Op::BulkPut { kvs } | Op::BulkPutStr { kvs } | Op::PutFromIter { kvs } => {
                let is_iter = matches!(op, Op::PutFromIter { .. });
                let is_str = matches!(op, Op::BulkPutStr { .. });
                let mut pairs: Vec<(Vec<u8>, Vec<u8>)> = Vec::new();
                for (k, v) in kvs {
                    let kb = self.key(*k);
                    if !is_iter && pairs.iter().any(|p| p.0 == kb) {
                        continue;
                    }
                    let vb = if is_str {
                        lossy(&v.bytes()).into_bytes()
                    } else {
                        v.bytes()
                    };
                    pairs.push((kb, vb));
                }
                if pairs.len() >= 3 {
                    self.rep.bump("batch_ge3");
                    let sorted = pairs.windows(2).all(|w| w[0].0 <= w[1].0);
                    if !sorted {
                        self.rep.bump("batch_unsorted");
                    }
                }
                if is_iter && pairs.len() > 1 {
                    let mut ks: Vec<&Vec<u8>> = pairs.iter().map(|p| &p.0).collect();
                    ks.sort();
                    ks.dedup();
                    if ks.len() < pairs.len() {
                        self.rep.bump("from_iter_repeated_key");
                    }
                }
                let r = if is_iter {
                    self.hnd().put_from_iter(&pairs)
                } else if is_str {
                    let sp: Vec<(Vec<u8>, String)> = pairs
                        .iter()
                        .map(|p| (p.0.clone(), String::from_utf8(p.1.clone()).unwrap()))
                        .collect();
                    self.rep.bump("string_call");
                    self.hnd().bulk_put_string(&sp)
                } else {
                    self.hnd().bulk_put(&pairs)
                };
                if let Err(e) = r {
                    fail!("error", o, "bulk put returned Err: {e}");
                }
                for (k, v) in pairs {
                    self.maps[self.curm].model.insert(k, v);
                }
                self.maps[self.curm].updates_since_sync += 1;
                // the state after the batch is checked right away
                self.full_compare(o)?;
            }
            Op::PutRel { k, mode, n } => {
                let key = self.key(*k);
                let val = rel_value(self.maps[self.curm].model.get(&key), *mode, *n, *k);
                self.note_put(&key, &val);
                if let Err(e) = self.hnd().put(&key, &val) {
                    fail!("error", o, "put (value derived from the stored one, mode {}) returned Err: {e}", mode % 6);
                }
                self.maps[self.curm].model.insert(key, val);
                self.maps[self.curm].updates_since_sync += 1;
                self.rep.bump(["put_appending", "put_truncating", "put_identical", "put_one_byte_changed", "put_prepending", "put_doubled"][(*mode % 6) as usize]);
            }
            Op::IterNth { f, n } => {
                let f = *f % 7;
                let n = *n as usize % 6;
                let plain = self.hnd().iterate(f, None, 0);
                self.check_iter(o, f, None, &plain)?;
                let out = self.hnd().iterate_nth(f, n);
                let total = self.maps[self.curm].model.len();
                let fname = ITER_FLAVOURS[f as usize];
                let exp: Vec<&(Option<Vec<u8>>, Option<Vec<u8>>)> = plain.items.iter().skip(n).step_by(n + 1).collect();
                if out.items.len() != exp.len() || out.items.iter().zip(exp.iter()).any(|(a, b)| a != *b) {
                    fail!(
                        "mismatch",
                        o,
                        "{fname}: a traversal by nth({n}) yields {} items, which are not the items {n}, {}.. of the plain traversal ({} expected, len {total})",
                        out.items.len(),
                        2 * n + 1,
                        exp.len()
                    );
                }
                for (j, h) in out.hints.iter().enumerate() {
                    let rem = total.saturating_sub(j * (n + 1));
                    if *h != (rem, Some(rem)) {
                        fail!("mismatch", o, "{fname}: size_hint after {j} calls of nth({n}) = {:?}, expected ({rem}, Some({rem})) (len {total})", h);
                    }
                }
                if n > 0 && total > n {
                    self.rep.bump("iter_by_nth");
                }
            }
            Op::HoldIter { f, take } => {
                let mi = self.curm;
                let upd = self.maps[mi].upd;
                let it = self.hnd().live_iter(*f, *take as usize % 5);
                self.held_iters.push((mi, upd, it));
                if self.held_iters.len() > 6 {
                    self.held_iters.remove(0);
                }
                self.rep.bump("iterator_held_across_calls");
            }
            Op::DropIters => {
                self.drain_held(o)?;
            }
            Op::DropDb => {
                // the handles stay alive and in use
                self.dbs.clear();
                self.rep.bump("database_object_dropped_handles_alive");
            }
            Op::HidePath => {
                // a map that was never opened could not be created through a path that no longer
                // resolves: the path is hidden only when every map's files exist
                if self.maps.iter().any(|m| !m.ever_opened) {
                    return Ok(());
                }
                if let Some(l) = self.link.take() {
                    let _ = std::fs::remove_file(&l);
                    self.rep.bump("open_path_hidden");
                }
            }
            Op::PutFromOwnIter { t } => {
                let r = self.hnd().put_from_own_iter(*t);
                if let Err(e) = r {
                    fail!("error", o, "put_from_iter fed by a traversal of the same map returned Err: {e}");
                }
                let ms = &mut self.maps[self.curm];
                for v in ms.model.values_mut() {
                    *v = crate::dbx::own_iter_transform(*t, v);
                }
                ms.updates_since_sync += 1;
                if ms.model.len() >= 2 {
                    self.rep.bump("put_from_iter_fed_by_own_traversal");
                }
                self.full_compare(o)?;
            }
            Op::Iter { f, take } => {
                let f = *f % 7;
                let out = self.hnd().iterate(f, take.map(|t| t as usize), 3);
                self.check_iter(o, f, *take, &out)?;
            }
            Op::IterMix { f, every, k } => {
                let f = *f % 7;
                let every = (*every as usize % 5) + 1;
                let ms = &self.maps[self.curm];
                let keys = ms.keys.clone();
                let model = ms.model.clone();
                let k0 = *k as usize;
                let mut bad: Option<String> = None;
                let mut between = |h: &mut dyn MapH, step: usize| {
                    let key = &keys[(k0 + step) % keys.len()];
                    match h.get(key) {
                        Ok(v) => {
                            if v.as_ref() != model.get(key) && bad.is_none() {
                                bad = Some(format!(
                                    "get({}) between traversal steps returned {} but the model says {}",
                                    hex(&key[..key.len().min(16)]),
                                    short(&v),
                                    short(&model.get(key).cloned())
                                ));
                            }
                        }
                        Err(e) => {
                            if bad.is_none() {
                                bad = Some(format!("get between traversal steps returned Err: {e}"));
                            }
                        }
                    }
                    match h.len() {
                        Ok(l) if l == model.len() as u64 => {}
                        other => {
                            if bad.is_none() {
                                bad = Some(format!("len() between traversal steps = {:?}, model has {}", other.ok(), model.len()));
                            }
                        }
                    }
                };
                let out = self.hnd().iterate_mixed(f, every, &mut between);
                if let Some(b) = bad {
                    fail!("mismatch", o, "{}: {b}", ITER_FLAVOURS[f as usize]);
                }
                self.check_iter(o, f, None, &out)?;
                self.rep.bump("iter_with_interleaved_reads");
            }
            Op::Stats => {
                let st = match self.hnd().stats() {
                    Ok(s) => s,
                    Err(e) => fail!("error", o, "statistics call returned Err: {e}"),
                };
                let _ = st;
                self.rep.bump("stats_call");
            }
            Op::ReadFill => {
                if let Err(e) = self.hnd().read_fill_buffer() {
                    fail!("error", o, "read_fill_buffer returned Err: {e}");
                }
            }
            Op::Flush | Op::SyncData | Op::SyncAll | Op::DbSyncData | Op::DbSyncAll => {
                self.sync_op(i, op)?;
            }
            Op::CloneHandle => {
                let ms = &mut self.maps[self.curm];
                let c = ms.cur % ms.handles.len();
                let nh = ms.handles[c].clone_handle();
                ms.handles.push(nh);
                ms.cur = ms.handles.len() - 1;
                self.rep.bump("handle_clone");
            }
            Op::DropHandle => {
                let ms = &mut self.maps[self.curm];
                if ms.handles.len() > 1 {
                    let c = ms.cur % ms.handles.len();
                    ms.handles.remove(c);
                    ms.cur = 0;
                    self.rep.bump("handle_drop");
                }
            }
            Op::DropAll => {
                let ms = &mut self.maps[self.curm];
                ms.handles.clear();
                ms.cur = 0;
                self.rep.bump("all_user_handles_dropped");
            }
            Op::Reacquire => {
                let db = self.dbs[0].clone();
                let ms = &mut self.maps[self.curm];
                let nh = match ms.handles[0].reacquire(&db, &ms.name) {
                    Ok(h) => h,
                    Err(e) => fail!("error", o, "re-acquiring map returned Err: {e}"),
                };
                ms.handles.push(nh);
                ms.cur = ms.handles.len() - 1;
                self.rep.bump("handle_reacquire");
            }
            Op::ReacquireP { v } => {
                let db = self.dbs[(*v as usize / 4) % self.dbs.len()].clone();
                let ms = &mut self.maps[self.curm];
                let mut p = ms.params;
                match *v % 4 {
                    0 => {}
                    1 => {
                        p.val = BufP::Size(4096 * (1 + (*v as u32 / 4) % 5));
                        p.key = BufP::Auto;
                    }
                    2 => {
                        p.val = BufP::Auto;
                        p.key = BufP::Auto;
                        p.htx = BufP::Auto;
                    }
                    _ => {
                        p.key = BufP::Size(65536);
                        p.htx = BufP::Auto;
                        p.buckets = Buckets::BucketsSize(7);
                    }
                }
                let nh = match open_map(&db, &ms.name, ms.kt, &p) {
                    Ok(h) => h,
                    Err(e) => fail!("error", o, "re-acquiring an open map with parameters returned Err: {e}"),
                };
                ms.handles.push(nh);
                ms.cur = ms.handles.len() - 1;
                self.rep.bump("handle_reacquire_with_params");
            }
            Op::CloneDb => {
                let db = self.dbs[self.dbs.len() - 1].clone();
                let ms = &mut self.maps[self.curm];
                let nh = match ms.handles[0].reacquire(&db, &ms.name) {
                    Ok(h) => h,
                    Err(e) => fail!("error", o, "re-acquiring map through db clone returned Err: {e}"),
                };
                ms.handles.push(nh);
                ms.cur = ms.handles.len() - 1;
                self.dbs.push(db);
                self.rep.bump("db_clone");
            }
            Op::Use { m } => {
                self.curm = *m as usize % self.maps.len();
                self.ensure_open(self.curm, o)?;
                let ms = &mut self.maps[self.curm];
                ms.cur = (ms.cur + 1) % ms.handles.len();
                if ms.handles.len() > 1 {
                    self.rep.bump("handle_switch");
                }
            }
            Op::Reopen { params, child, order } => {
                self.reopen(i, params, *child, *order)?;
            }
        }
        if obs.isolation && op.is_update() {
            self.isolation_after(o)?;
        }
        if obs.full_compare_every_op && op.is_update() {
            self.full_compare(o)?;
        }
        if obs.decode_every_op && !matches!(op, Op::Reopen { .. }) {
            self.decode_point(o, true, op.is_update())?;
        }
        Ok(())
    }

    fn note_put(&mut self, key: &[u8], val: &[u8]) {
        let ms = &self.maps[self.curm];
        if let Some(old) = ms.model.get(key) {
            self.rep.bump("overwrite");
            let a = slot_class_of_value(old.len());
            let b = slot_class_of_value(val.len());
            if a != b {
                self.rep.bump("overwrite_other_class");
                if b > a {
                    self.rep.bump("overwrite_grow");
                }
            }
        } else {
            self.rep.bump("insert");
        }
        if val.len() > 4096 {
            self.rep.bump("value_gt_4k");
        }
        if val.len() > 131072 {
            self.rep.bump("value_gt_chunk");
        }
        if val.is_empty() {
            self.rep.bump("value_empty");
        }
        if key.is_empty() {
            self.rep.bump("key_empty");
        }
    }

    fn note_batch(&mut self, keys: &[Vec<u8>], exp: &[Option<Vec<u8>>]) {
        if keys.len() >= 3 {
            self.rep.bump("batch_ge3");
            let sorted = keys.windows(2).all(|w| w[0] <= w[1]);
            let some = exp.iter().any(|e| e.is_some());
            let none = exp.iter().any(|e| e.is_none());
            if !sorted {
                self.rep.bump("batch_unsorted");
                if some && none {
                    self.rep.bump("batch_unsorted_mixed");
                }
            }
        }
        if keys.is_empty() {
            self.rep.bump("batch_empty");
        }
    }

    pub fn full_compare(&mut self, o: Option<usize>) -> Result<(), Failure> {
        for mi in 0..self.maps.len() {
            if self.dbs.is_empty() && self.maps[mi].handles.is_empty() {
                // no database object left to look the map up through (Op::DropDb): after the reopen
                continue;
            }
            self.ensure_open(mi, o)?;
            let keys = self.maps[mi].keys.clone();
            let ms = &mut self.maps[mi];
            let c = ms.cur % ms.handles.len();
            for k in &keys {
                let exp = ms.model.get(k).cloned();
                let got = match ms.handles[c].get(k) {
                    Ok(x) => x,
                    Err(e) => fail!("error", o, "get (full compare) returned Err: {e}"),
                };
                if got != exp {
                    fail!(
                        "mismatch",
                        o,
                        "map {}: get({}) = {} but model says {} (full comparison)",
                        ms.name,
                        hex(&k[..k.len().min(16)]),
                        short(&got),
                        short(&exp)
                    );
                }
            }
            let l = match ms.handles[c].len() {
                Ok(x) => x,
                Err(e) => fail!("error", o, "len returned Err: {e}"),
            };
            if l != ms.model.len() as u64 {
                fail!("mismatch", o, "map {}: len = {l} but model says {}", ms.name, ms.model.len());
            }
        }
        Ok(())
    }

    /// full traversal of which the first `off` steps were taken earlier without recording hints
    fn check_iter_offset(&mut self, o: Option<usize>, f: u8, out: &IterOut, off: usize) -> Result<(), Failure> {
        let total = self.maps[self.curm].model.len();
        let off = off.min(total);
        let mut o2 = IterOut {
            items: out.items.clone(),
            hints: (0..off).map(|j| (total - j, Some(total - j))).collect(),
            after_end: Vec::new(),
            ended: out.ended,
        };
        o2.hints.extend(out.hints.iter().cloned());
        self.check_iter(o, f, None, &o2)
    }

    fn check_iter(
        &mut self,
        o: Option<usize>,
        f: u8,
        take: Option<u16>,
        out: &IterOut,
    ) -> Result<(), Failure> {
        let model = &self.maps[self.curm].model;
        let total = model.len();
        let fname = ITER_FLAVOURS[f as usize];
        // size hints
        for (i, h) in out.hints.iter().enumerate() {
            let rem = total.saturating_sub(i.min(out.items.len()));
            let rem = if i > out.items.len() { 0 } else { rem };
            if *h != (rem, Some(rem)) {
                fail!(
                    "mismatch",
                    o,
                    "{fname}: size_hint before step {i} = {:?}, expected ({rem}, Some({rem})) (len {total})",
                    h
                );
            }
        }
        if out.after_end.iter().any(|b| *b) {
            fail!("mismatch", o, "{fname}: next() after the end returned Some");
        }
        // items
        let mut seen: BTreeMap<Vec<u8>, usize> = BTreeMap::new();
        let mut vals: Vec<Vec<u8>> = Vec::new();
        for (k, v) in &out.items {
            match (k, v) {
                (Some(k), Some(v)) => {
                    match model.get(k) {
                        Some(mv) if mv == v => {}
                        Some(mv) => fail!(
                            "mismatch",
                            o,
                            "{fname}: yielded key {} with value {} but model has {}",
                            hex(&k[..k.len().min(16)]),
                            short(&Some(v.clone())),
                            short(&Some(mv.clone()))
                        ),
                        None => fail!(
                            "mismatch",
                            o,
                            "{fname}: yielded key {} which is not live",
                            hex(&k[..k.len().min(16)])
                        ),
                    }
                    *seen.entry(k.clone()).or_insert(0) += 1;
                }
                (Some(k), None) => {
                    if !model.contains_key(k) {
                        fail!("mismatch", o, "{fname}: yielded key {} which is not live", hex(&k[..k.len().min(16)]));
                    }
                    *seen.entry(k.clone()).or_insert(0) += 1;
                }
                (None, Some(v)) => vals.push(v.clone()),
                _ => {}
            }
        }
        if let Some((k, c)) = seen.iter().find(|(_, c)| **c > 1) {
            fail!("mismatch", o, "{fname}: key {} yielded {c} times", hex(&k[..k.len().min(16)]));
        }
        if take.is_none() {
            if !out.ended {
                fail!("mismatch", o, "{fname}: traversal did not end");
            }
            if out.items.len() != total {
                fail!(
                    "mismatch",
                    o,
                    "{fname}: yielded {} items but len() is {total}",
                    out.items.len()
                );
            }
            if f == 3 {
                let mut exp: Vec<Vec<u8>> = model.values().cloned().collect();
                exp.sort();
                vals.sort();
                if exp != vals {
                    fail!("mismatch", o, "values(): multiset of values differs from model");
                }
            } else if seen.len() != total {
                fail!("mismatch", o, "{fname}: {} distinct keys yielded, model has {total}", seen.len());
            }
            self.rep.bump("iter_full");
            if total == 0 {
                self.rep.bump("iter_on_empty");
            }
        } else {
            if f == 3 {
                // every yielded value must be a live value (multiset inclusion)
                let mut pool: BTreeMap<&Vec<u8>, usize> = BTreeMap::new();
                for v in model.values() {
                    *pool.entry(v).or_insert(0) += 1;
                }
                for v in &vals {
                    match pool.get_mut(v) {
                        Some(c) if *c > 0 => *c -= 1,
                        _ => fail!("mismatch", o, "values(): yielded a value that is not live (or too often)"),
                    }
                }
            }
            self.rep.bump("iter_partial");
        }
        self.rep.bump(&format!("iter_{fname}"));
        Ok(())
    }

    /// flush/sync op + observers
    fn sync_op(&mut self, i: usize, op: &Op) -> Result<(), Failure> {
        let o = Some(i);
        let obs = self.h.obs.clone();
        let _ = take_trace();
        let whole_db = matches!(op, Op::DbSyncData | Op::DbSyncAll);
        if let Some(hk) = self.on_sync_begin.as_mut() {
            hk(i);
        }
        let mut need_synced: Vec<String> = Vec::new();
        let r = match op {
            Op::Flush => self.hnd().flush(),
            Op::SyncData => self.hnd().sync_data(),
            Op::SyncAll => self.hnd().sync_all(),
            Op::DbSyncData => self.dbs[0].sync_data(),
            Op::DbSyncAll => self.dbs[0].sync_all(),
            _ => unreachable!(),
        };
        if let Err(e) = r {
            fail!("error", o, "{:?} returned Err: {e}", op);
        }
        let trace = take_trace();
        self.rep.bump("sync_point");
        let targets: Vec<usize> = if whole_db {
            (0..self.maps.len()).filter(|&mi| self.maps[mi].ever_opened).collect()
        } else {
            vec![self.curm]
        };
        for &mi in &targets {
            if self.maps[mi].updates_since_sync > 0 {
                self.rep.bump("sync_point_with_updates");
            }
            if self.maps[mi].model.is_empty() && self.maps[mi].updates_since_sync == 1 && i < 3 {
                self.rep.bump("sync_created_only");
            }
        }
        if obs.io_trace || obs.snapshot_at_sync || obs.decode_at_sync {
            for &mi in &targets {
                let name = self.maps[mi].name.clone();
                let files = match read_files(&self.ctx.dir, &name) {
                    Ok(f) => f,
                    Err(e) => fail!("durability", o, "cannot read files of map {name} at sync point: {e}"),
                };
                let sig = [fnv(&files[0]), fnv(&files[1]), fnv(&files[2])];
                if obs.io_trace && !matches!(op, Op::Flush) {
                    let want = if matches!(op, Op::SyncData | Op::DbSyncData) {
                        "sync_data"
                    } else {
                        "sync_all"
                    };
                    let names = ["htx", "key", "val"];
                    let mut changed_all = true;
                    for fi in 0..3 {
                        let changed = self.maps[mi].synced[fi] != Some(sig[fi]);
                        if !changed {
                            changed_all = false;
                            continue;
                        }
                        need_synced.push(file_names(&name)[fi].clone());
                        // the trace is per thread and carries the buffered file's name only;
                        // with several maps we can only count events per kind
                        let n_events = trace
                            .iter()
                            .filter(|(n, k)| n == names[fi] && *k == want)
                            .count();
                        let need = if whole_db {
                            // at least one event per changed file of this kind; exact attribution
                            // is checked in single-map histories
                            1
                        } else {
                            1
                        };
                        if n_events < need {
                            fail!(
                                "iotrace",
                                o,
                                "{:?} returned Ok but the {} file of map {} (changed on disk since its last OS sync) was not {}'ed; trace: {:?}",
                                op,
                                names[fi],
                                name,
                                want,
                                trace
                            );
                        }
                        self.maps[mi].synced[fi] = Some(sig[fi]);
                    }
                    if changed_all {
                        self.rep.bump("sync_all_three_changed");
                    }
                }
                if obs.decode_at_sync || obs.snapshot_at_sync {
                    // the bytes on disk right now are what a crash would leave behind
                    let d = decoder::decode(self.maps[mi].kt, &files[0], &files[1], &files[2]);
                    self.check_decoded(o, mi, &d, "at sync point", false)?;
                }
                if obs.snapshot_at_sync {
                    self.snapshot_check(o, mi, &files)?;
                }
                self.maps[mi].updates_since_sync = 0;
            }
        } else {
            for &mi in &targets {
                self.maps[mi].updates_since_sync = 0;
            }
        }
        if let Some(hk) = self.on_sync_end.as_mut() {
            hk(i, &need_synced);
        }
        Ok(())
    }

    /// write the given file bytes to a side directory, open it with the crate, compare with model
    fn snapshot_check(&mut self, o: Option<usize>, mi: usize, files: &[Vec<u8>; 3]) -> Result<(), Failure> {
        let snap = self.ctx.dir.join("snap");
        let _ = std::fs::remove_dir_all(&snap);
        std::fs::create_dir_all(&snap).map_err(|e| Failure::new("infra", o, format!("mkdir snap: {e}")))?;
        let name = self.maps[mi].name.clone();
        let fnames = file_names(&name);
        for fi in 0..3 {
            std::fs::write(snap.join(&fnames[fi]), &files[fi])
                .map_err(|e| Failure::new("infra", o, format!("write snap: {e}")))?;
        }
        let kt = self.maps[mi].kt;
        let params = self.maps[mi].params;
        let keys = self.maps[mi].keys.clone();
        let model = self.maps[mi].model.clone();
        let res = std::panic::catch_unwind(std::panic::AssertUnwindSafe(|| -> Result<(), String> {
            let db = abyssiniandb::open_file(&snap).map_err(|e| format!("open_file: {e}"))?;
            let mut m = open_map(&db, &name, kt, &params).map_err(|e| format!("open map: {e}"))?;
            let l = m.len().map_err(|e| format!("len: {e}"))?;
            if l != model.len() as u64 {
                return Err(format!("len = {l}, model says {}", model.len()));
            }
            for k in &keys {
                let got = m.get(k).map_err(|e| format!("get: {e}"))?;
                let exp = model.get(k).cloned();
                if got != exp {
                    return Err(format!(
                        "get({}) = {} but model says {}",
                        hex(&k[..k.len().min(16)]),
                        short(&got),
                        short(&exp)
                    ));
                }
            }
            Ok(())
        }));
        let _ = std::fs::remove_dir_all(&snap);
        self.rep.bump("snapshot_opened");
        match res {
            Ok(Ok(())) => Ok(()),
            Ok(Err(m)) => fail!("durability", o, "snapshot taken when flush/sync returned Ok does not open to the current state: {m}"),
            Err(p) => fail!(
                "durability",
                o,
                "snapshot taken when flush/sync returned Ok cannot be opened: panic: {}",
                crate::runner::panic_text(&p)
            ),
        }
    }

    /// flush (if requested) and decode every map; structure, contents, tiling, stats
    fn decode_point(&mut self, o: Option<usize>, flush_first: bool, was_update: bool) -> Result<(), Failure> {
        for mi in 0..self.maps.len() {
            if flush_first {
                let ms = &mut self.maps[mi];
                let c = ms.cur % ms.handles.len();
                if let Err(e) = ms.handles[c].flush() {
                    fail!("error", o, "flush returned Err: {e}");
                }
            }
            let name = self.maps[mi].name.clone();
            let files = match read_files(&self.ctx.dir, &name) {
                Ok(f) => f,
                Err(e) => fail!("structure", o, "cannot read files of map {name}: {e}"),
            };
            let d = decoder::decode(self.maps[mi].kt, &files[0], &files[1], &files[2]);
            self.check_decoded(o, mi, &d, "after flush", was_update)?;
            if self.h.obs.stats {
                self.check_stats(o, mi, &d)?;
            }
            self.maps[mi].prev = Some(d);
        }
        Ok(())
    }

    fn check_decoded(
        &mut self,
        o: Option<usize>,
        mi: usize,
        d: &Decoded,
        when: &str,
        _was_update: bool,
    ) -> Result<(), Failure> {
        if decoder::mode() == decoder::Mode::Off {
            return Ok(());
        }
        let name = self.maps[mi].name.clone();
        self.rep.bump("decoded_states");
        if let Some(c) = d.header.first() {
            fail!("structure", o, "map {name} {when}: header: {c}");
        }
        if let Some(c) = d.structure.first() {
            fail!("structure", o, "map {name} {when}: {c} ({} complaints)", d.structure.len());
        }
        let contents = d.contents();
        if contents != self.maps[mi].model {
            let model = &self.maps[mi].model;
            let mut msg = format!(
                "decoded contents ({} entries) differ from the model ({} entries)",
                contents.len(),
                model.len()
            );
            for (k, v) in model {
                match contents.get(k) {
                    None => {
                        msg += &format!("; key {} missing on disk", hex(&k[..k.len().min(16)]));
                        break;
                    }
                    Some(dv) if dv != v => {
                        msg += &format!(
                            "; key {} on disk {} model {}",
                            hex(&k[..k.len().min(16)]),
                            short(&Some(dv.clone())),
                            short(&Some(v.clone()))
                        );
                        break;
                    }
                    _ => {}
                }
            }
            fail!("structure", o, "map {name} {when}: {msg}");
        }
        if d.max_chain >= 3 {
            self.rep.bump("chain_ge3");
        }
        let free_lists = d
            .key_file
            .free
            .iter()
            .chain(d.val_file.free.iter())
            .filter(|l| !l.is_empty())
            .count();
        if free_lists > 0 {
            self.rep.bump("state_with_free_slots");
        }
        if free_lists >= 2 {
            self.rep.bump("state_with_2_free_lists");
        }
        if d.max_chain >= 3 && free_lists > 0 {
            self.rep.bump("state_chain3_and_free");
        }
        if d.key_file.file_len > 16384 || d.val_file.file_len > 16384 {
            self.rep.bump("file_gt_16k");
        }
        if self.h.obs.tiling {
            if let Some(c) = d.tiling.first() {
                fail!("tiling", o, "map {name} {when}: {c} ({} complaints)", d.tiling.len());
            }
            // the per-call rules need every call boundary to be observed
            if self.h.obs.decode_every_op {
                let batch = o
                    .and_then(|i| self.h.ops.get(i))
                    .map(|op| {
                        matches!(
                            op,
                            Op::BulkPut { .. }
                                | Op::BulkPutStr { .. }
                                | Op::PutFromIter { .. }
                                | Op::PutFromOwnIter { .. }
                                | Op::BulkDel { .. }
                                | Op::BulkDelStr { .. }
                        )
                    })
                    .unwrap_or(false);
                if batch {
                    // several calls in one op: call boundaries inside the batch are not observed
                    self.maps[mi].prev = None;
                }
                self.check_growth(o, mi, d)?;
            }
        }
        // relocation detection (label only)
        if let Some(prev) = &self.maps[mi].prev {
            let pm: HashMap<&Vec<u8>, u64> = prev.entries.iter().map(|e| (&e.key, e.key_off)).collect();
            let moved = d
                .entries
                .iter()
                .filter(|e| pm.get(&e.key).map(|&po| po != e.key_off).unwrap_or(false))
                .count();
            if moved > 0 {
                self.rep.bump("key_record_relocated");
                if moved > 1 {
                    self.rep.bump("relocation_cascade");
                }
            }
        }
        Ok(())
    }

    /// C06: extend-only-if-no-free-slot and the per-size slot bound
    fn check_growth(&mut self, o: Option<usize>, mi: usize, d: &Decoded) -> Result<(), Failure> {
        let name = self.maps[mi].name.clone();
        let prev = self.maps[mi].prev.clone();
        for (which, cur, prevt) in [
            ("key", &d.key_file, prev.as_ref().map(|p| &p.key_file)),
            ("val", &d.val_file, prev.as_ref().map(|p| &p.val_file)),
        ] {
            // allocations of this call: live slots of the post state that were not live at the
            // same offset with the same content role before (approximated by: offset not live before)
            let mut allocs: u64 = 0;
            if let Some(pt) = prevt {
                let prev_live: std::collections::HashSet<u64> = pt
                    .slots
                    .iter()
                    .filter(|s| s.kind == SlotKind::Live)
                    .map(|s| s.off)
                    .collect();
                let prev_free: HashMap<u64, u64> = pt
                    .slots
                    .iter()
                    .filter(|s| matches!(s.kind, SlotKind::Free(_)))
                    .map(|s| (s.off, s.size))
                    .collect();
                for s in &cur.slots {
                    if s.kind == SlotKind::Live && !prev_live.contains(&s.off) {
                        allocs += 1;
                    }
                    if s.kind == SlotKind::Live && prev_free.contains_key(&s.off) {
                        self.rep.bump("free_slot_reused");
                        if s.size >= 1024 {
                            self.rep.bump("large_slot_reused");
                        }
                    }
                }
                // new slots beyond the previous end of file
                for s in cur.slots.iter().filter(|s| s.off >= pt.file_len) {
                    self.rep.bump("file_extended");
                    // acceptable free slot that stayed free over the whole call?
                    for (fo, fs) in prev_free.iter() {
                        let still_free = cur
                            .slots
                            .iter()
                            .any(|c| c.off == *fo && matches!(c.kind, SlotKind::Free(_)) && c.size == *fs);
                        if !still_free {
                            continue;
                        }
                        let acceptable = if s.size < 1024 { *fs == s.size } else { *fs >= s.size };
                        if acceptable {
                            fail!(
                                "tiling",
                                o,
                                "map {name}: {which} file was extended by a slot of size {} at {} although the free slot at {fo} (size {fs}) was available before and after the call",
                                s.size,
                                s.off
                            );
                        }
                    }
                }
                if cur.file_len < pt.file_len {
                    self.rep.bump("file_shrunk");
                }
            }
            let tr = if which == "key" {
                &mut self.maps[mi].track_key
            } else {
                &mut self.maps[mi].track_val
            };
            if allocs > tr.max_alloc_per_call {
                tr.max_alloc_per_call = allocs;
            }
            let mut live: HashMap<u64, u64> = HashMap::new();
            let mut all: HashMap<u64, u64> = HashMap::new();
            for s in &cur.slots {
                *all.entry(s.size).or_insert(0) += 1;
                if s.kind == SlotKind::Live {
                    *live.entry(s.size).or_insert(0) += 1;
                }
            }
            for (sz, n) in &live {
                let p = tr.peak_live.entry(*sz).or_insert(0);
                if *n > *p {
                    *p = *n;
                }
            }
            if prevt.is_none() {
                // first observed state (possibly an image with a history we did not see): every
                // existing slot counts as having been in use at once
                for (sz, n) in &all {
                    let p = tr.peak_live.entry(*sz).or_insert(0);
                    if *n > *p {
                        *p = *n;
                    }
                }
            }
            let slack = tr.max_alloc_per_call.max(1);
            for (sz, n) in &all {
                // exact classes only: for the shared large list an allocator may legitimately
                // split or coalesce slots; there the tiling, membership and extend-only rules apply
                if *sz >= 1024 {
                    continue;
                }
                let p = tr.peak_live.get(sz).copied().unwrap_or(0);
                if *n > p + slack {
                    fail!(
                        "tiling",
                        o,
                        "map {name}: {which} file holds {n} slots of size {sz} but at most {p} were ever in use at once (+{slack} transient): freed space is not reused"
                    );
                }
            }
        }
        Ok(())
    }

    fn check_stats(&mut self, o: Option<usize>, mi: usize, d: &Decoded) -> Result<(), Failure> {
        let ms = &mut self.maps[mi];
        let c = ms.cur % ms.handles.len();
        let st = match ms.handles[c].stats() {
            Ok(s) => s,
            Err(e) => fail!("error", o, "statistics call returned Err: {e}"),
        };
        let exp = expected_stats(d);
        self.rep.bump("stats_compared");
        if d.entries.iter().any(|e| e.value.as_ref().map(|v| v.is_empty()).unwrap_or(false)) {
            self.rep.bump("stats_state_with_empty_value");
            let fl = d.key_file.free.iter().chain(d.val_file.free.iter()).filter(|l| !l.is_empty()).count();
            if fl >= 2 {
                self.rep.bump("stats_nontrivial");
            }
        }
        if let Some(m) = stats_diff(&st, &exp) {
            fail!("stats", o, "map {}: {m}", self.maps[mi].name);
        }
        Ok(())
    }

    fn isolation_before(&mut self) -> Result<(), Failure> {
        // flush every other map so that their files are stable, remember signatures
        let cm = self.curm;
        for ms in self.maps.iter_mut() {
            ms.file_sig = None;
        }
        for mi in 0..self.maps.len() {
            if mi == cm || self.maps[mi].handles.is_empty() {
                continue;
            }
            let dir = self.ctx.dir.clone();
            let ms = &mut self.maps[mi];
            let _ = ms.handles[0].flush();
            if let Ok(f) = read_files(&dir, &ms.name) {
                ms.file_sig = Some([fnv(&f[0]), fnv(&f[1]), fnv(&f[2])]);
            }
        }
        Ok(())
    }

    fn isolation_after(&mut self, o: Option<usize>) -> Result<(), Failure> {
        let cm = self.curm;
        // flush the updated map so that a cross-talk write would reach the disk
        {
            let ms = &mut self.maps[cm];
            let c = ms.cur % ms.handles.len();
            let _ = ms.handles[c].flush();
        }
        for mi in 0..self.maps.len() {
            if mi == cm || self.maps[mi].handles.is_empty() || self.maps[mi].file_sig.is_none() {
                continue;
            }
            let dir = self.ctx.dir.clone();
            let cm_name = self.maps[cm].name.clone();
            let ms = &mut self.maps[mi];
            let _ = ms.handles[0].flush();
            if let (Ok(f), Some(sig)) = (read_files(&dir, &ms.name), ms.file_sig) {
                let now = [fnv(&f[0]), fnv(&f[1]), fnv(&f[2])];
                if now != sig {
                    fail!(
                        "isolation",
                        o,
                        "files of map {} changed while only map {} was updated",
                        ms.name,
                        cm_name
                    );
                }
                self.rep.bump("isolation_checked");
            }
        }
        Ok(())
    }

    /// held iterators whose map was not updated since their creation must deliver exactly the rest
    fn drain_held(&mut self, o: Option<usize>) -> Result<(), Failure> {
        let held = std::mem::take(&mut self.held_iters);
        for (mi, upd, mut it) in held {
            if self.maps[mi].upd == upd {
                let (f, off) = (it.flavour(), it.taken());
                let out = it.drain();
                let saved = self.curm;
                self.curm = mi;
                let r = self.check_iter_offset(o, f, &out, off);
                self.curm = saved;
                r?;
                self.rep.bump("held_iterator_drained");
            }
            drop(it);
        }
        Ok(())
    }

    fn close_all(&mut self, order: u8) -> Result<(), Failure> {
        // a half-consumed iterator keeps an Rc alive: it must not prevent the close once dropped
        match order % 4 {
            0 => {
                self.held_iters.clear();
                for ms in self.maps.iter_mut() {
                    ms.handles.clear();
                }
                self.dbs.clear();
            }
            1 => {
                self.dbs.clear();
                for ms in self.maps.iter_mut().rev() {
                    while let Some(h) = ms.handles.pop() {
                        drop(h);
                    }
                }
                self.held_iters.clear();
            }
            2 => {
                for ms in self.maps.iter_mut() {
                    while !ms.handles.is_empty() {
                        ms.handles.remove(0);
                    }
                }
                self.held_iters.clear();
                while let Some(d) = self.dbs.pop() {
                    drop(d);
                }
            }
            _ => {
                // a half consumed iterator on every map; handles and the database object are dropped
                // first; the iterators, now the only owners, must still deliver exactly the rest
                let mut its = Vec::new();
                for (mi, upd, it) in std::mem::take(&mut self.held_iters) {
                    if self.maps[mi].upd == upd {
                        its.push((mi, it));
                    }
                }
                for (mi, ms) in self.maps.iter_mut().enumerate() {
                    if let Some(h) = ms.handles.first_mut() {
                        its.push((mi, h.live_iter(ms.model.len() as u8, 1)));
                    }
                    ms.handles.clear();
                }
                self.dbs.clear();
                for (mi, mut it) in its {
                    let (f, off) = (it.flavour(), it.taken());
                    let out = it.drain();
                    let saved = self.curm;
                    self.curm = mi;
                    let r = self.check_iter_offset(None, f, &out, off);
                    self.curm = saved;
                    drop(it);
                    r?;
                }
                self.rep.bump("close_with_live_iterator");
            }
        }
        Ok(())
    }

    fn reopen(&mut self, i: usize, params: &Params, child: bool, order: u8) -> Result<(), Failure> {
        let o = Some(i);
        self.close_all(order)?;
        self.rep.bump("reopen");
        let any_del = self.rep.has("delete_present");
        let any_ow = self.rep.has("overwrite");
        if any_del && any_ow {
            self.rep.bump("reopen_after_delete_and_overwrite");
        }
        if self.h.obs.decode_at_close || self.h.obs.decode_every_op {
            self.decode_closed(o)?;
        }
        if child {
            self.child_verify(o)?;
        }
        // both constructors are in use: open_file() at the start, FileDb::open() at reopens at odd op positions
        let r = if i % 2 == 1 { abyssiniandb::filedb::FileDb::open(&self.ctx.dir) } else { abyssiniandb::open_file(&self.ctx.dir) };
        let db = match r {
            Ok(d) => d,
            Err(err) => fail!("error", o, "open_file at reopen: {err}"),
        };
        if db.path() != self.ctx.dir {
            fail!("mismatch", o, "FileDb::path() = {:?}, opened {:?}", db.path(), self.ctx.dir);
        }
        self.dbs.push(db);
        for mi in 0..self.maps.len() {
            let (name, kt) = (self.maps[mi].name.clone(), self.maps[mi].kt);
            if *params != self.maps[mi].params {
                self.rep.bump("reopen_other_params");
                if params.buckets != self.maps[mi].params.buckets {
                    self.rep.bump("reopen_other_buckets");
                }
            }
            // the table size of an existing map is the stored one: Capacity(0) / BucketsSize(0), which
            // a creation refuses by contract, are as irrelevant as any other value at reopen
            let mut p = *params;
            if self.maps[mi].ever_opened && i % 7 == 3 {
                p.buckets = if i % 2 == 0 { Buckets::Capacity(0) } else { Buckets::BucketsSize(0) };
                self.rep.bump("reopen_with_zero_table_parameter");
            }
            let hnd = match open_map(&self.dbs[0], &name, kt, &p) {
                Ok(m) => m,
                Err(err) => fail!("error", o, "reopening map {name}: {err}"),
            };
            self.maps[mi].handles.push(hnd);
            self.maps[mi].cur = 0;
            self.maps[mi].ever_opened = true;
            self.maps[mi].params = *params;
            self.maps[mi].updates_since_sync = 0;
            // a clean close is as good as an OS-level flush for our purposes, not a sync
        }
        // contents after reopen: every key, absent keys, len, full iteration
        self.full_compare(o)?;
        let saved = self.curm;
        for mi in 0..self.maps.len() {
            self.curm = mi;
            let out = self.hnd().iterate(0, None, 1);
            self.check_iter(o, 0, None, &out)?;
        }
        self.curm = saved;
        Ok(())
    }

    /// all handles are dropped: decode files
    fn decode_closed(&mut self, o: Option<usize>) -> Result<(), Failure> {
        for mi in 0..self.maps.len() {
            let name = self.maps[mi].name.clone();
            let files = match read_files(&self.ctx.dir, &name) {
                Ok(f) => f,
                Err(e) => fail!("structure", o, "cannot read files of map {name} after close: {e}"),
            };
            let d = decoder::decode(self.maps[mi].kt, &files[0], &files[1], &files[2]);
            self.check_decoded(o, mi, &d, "after close", false)?;
            self.maps[mi].prev = Some(d);
            self.rep.bump("decoded_at_close");
        }
        Ok(())
    }

    fn child_verify(&mut self, o: Option<usize>) -> Result<(), Failure> {
        let exe = match &self.ctx.exe {
            Some(e) => e.clone(),
            None => return Ok(()),
        };
        let mut maps = Vec::new();
        for ms in &self.maps {
            maps.push(crate::childproc::DirMap {
                name: ms.name.clone(),
                kt: ms.kt,
                params: ms.params,
                keys: ms.keys.iter().map(|k| hex(k)).collect(),
            });
        }
        let req = crate::childproc::VerifyReq {
            dir: self.ctx.dir.to_string_lossy().to_string(),
            maps,
        };
        // every other child verification runs under an allocator that places byte buffers at odd
        // addresses (results must not depend on where a key buffer lives)
        let mis = self.rep.get("child_reopen") % 2 == 1;
        let got = match if mis {
            crate::childproc::run_verify_child_misaligned(&exe, &req, &self.ctx.dir)
        } else {
            crate::childproc::run_verify_child(&exe, &req, &self.ctx.dir)
        } {
            Ok(g) => g,
            Err(e) => fail!("child", o, "reopen in a fresh process{} failed: {e}", if mis { " (byte buffers at odd addresses)" } else { "" }),
        };
        if mis {
            self.rep.bump("child_reopen_misaligned_allocator");
        }
        for (mi, ms) in self.maps.iter().enumerate() {
            let exp = crate::childproc::digest_model(&ms.keys, &ms.model);
            if got.maps.get(mi) != Some(&exp) {
                fail!(
                    "child",
                    o,
                    "map {}: contents seen by a freshly spawned process differ from the model: child {:?} model {:?}",
                    ms.name,
                    got.maps.get(mi),
                    exp
                );
            }
        }
        self.rep.bump("child_reopen");
        Ok(())
    }

    fn finish(&mut self) -> Result<(), Failure> {
        let o = Some(self.h.ops.len());
        self.full_compare(o)?;
        // the final close uses all four drop orders too (by the length of the history)
        self.close_all((self.h.ops.len() % 4) as u8)?;
        if self.h.obs.decode_at_close || self.h.obs.decode_every_op {
            self.decode_closed(o)?;
        }
        Ok(())
    }

    /// closes everything (used by drivers that look at the files afterwards)
    pub fn close(&mut self) {
        let _ = self.close_all(0);
    }
}

fn trunc<T: std::fmt::Debug>(v: &[T]) -> String {
    let s = format!("{:?}", v);
    s.chars().take(300).collect()
}

fn diff_vec(got: &[Option<Vec<u8>>], exp: &[Option<Vec<u8>>]) -> String {
    if got.len() != exp.len() {
        return format!("returned {} results for {} keys", got.len(), exp.len());
    }
    for (i, (g, e)) in got.iter().zip(exp.iter()).enumerate() {
        if g != e {
            return format!("position {i}: got {} expected {}", short(g), short(e));
        }
    }
    "equal".into()
}

/// slot class a value of this length ends up in (only used for labels)
pub fn slot_class_of_value(len: usize) -> u64 {
    let l = len as u64;
    let piece = decoder::vu64_len(l) as u64 + l;
    let enc = decoder::vu64_len((piece + 7) / 8) as u64;
    let need = piece + enc;
    for c in decoder::CLASSES[..15].iter() {
        if need <= *c as u64 {
            return *c as u64;
        }
    }
    ((need + 128) / 128) * 128
}

/// statistics expected from the decoded structure (C17)
pub fn expected_stats(d: &Decoded) -> StatsOut {
    let fmt_hist = |m: &BTreeMap<u64, u64>| -> String {
        let parts: Vec<String> = m.iter().map(|(a, b)| format!("({a}, {b})")).collect();
        format!("[{}]", parts.join(", "))
    };
    let mut kps = BTreeMap::new();
    let mut kls = BTreeMap::new();
    let mut vps = BTreeMap::new();
    let mut vls = BTreeMap::new();
    for e in &d.entries {
        if !e.key.is_empty() {
            *kps.entry(e.key_size).or_insert(0u64) += 1;
            *kls.entry(e.key.len() as u64).or_insert(0u64) += 1;
        }
        if let Some(v) = &e.value {
            if !v.is_empty() {
                *vps.entry(e.val_size).or_insert(0u64) += 1;
                *vls.entry(v.len() as u64).or_insert(0u64) += 1;
            }
        }
    }
    let free = |t: &decoder::FileTiling| -> Vec<(u32, u64)> {
        decoder::CLASSES
            .iter()
            .enumerate()
            .map(|(i, c)| (*c, t.free.get(i).map(|l| l.len()).unwrap_or(0) as u64))
            .collect()
    };
    StatsOut {
        free_key: free(&d.key_file),
        free_val: free(&d.val_file),
        key_piece_size: fmt_hist(&kps),
        val_piece_size: fmt_hist(&vps),
        key_length: fmt_hist(&kls),
        val_length: fmt_hist(&vls),
        keys_count: "[]".to_string(),
        filling: (
            d.nonempty_buckets,
            if d.n_buckets > 0 {
                (d.nonempty_buckets * 1000 / d.n_buckets) as u32
            } else {
                0
            },
        ),
    }
}

pub fn stats_diff(got: &StatsOut, exp: &StatsOut) -> Option<String> {
    if got.free_key != exp.free_key {
        return Some(format!(
            "count_of_free_key_piece = {:?} but the key file's free lists hold {:?}",
            got.free_key, exp.free_key
        ));
    }
    if got.free_val != exp.free_val {
        return Some(format!(
            "count_of_free_value_piece = {:?} but the value file's free lists hold {:?}",
            got.free_val, exp.free_val
        ));
    }
    if got.key_piece_size != exp.key_piece_size {
        return Some(format!(
            "key_piece_size_stats = {} but live non-empty keys occupy {}",
            got.key_piece_size, exp.key_piece_size
        ));
    }
    if got.val_piece_size != exp.val_piece_size {
        return Some(format!(
            "value_piece_size_stats = {} but live non-empty values occupy {}",
            got.val_piece_size, exp.val_piece_size
        ));
    }
    if got.key_length != exp.key_length {
        return Some(format!(
            "key_length_stats = {} but live non-empty keys have {}",
            got.key_length, exp.key_length
        ));
    }
    if got.val_length != exp.val_length {
        return Some(format!(
            "value_length_stats = {} but live non-empty values have {}",
            got.val_length, exp.val_length
        ));
    }
    if got.filling != exp.filling {
        return Some(format!(
            "htx_filling_rate_per_mill = {:?} but {:?} buckets are non-empty",
            got.filling, exp.filling
        ));
    }
    None
}


/// pure model semantics of a history: the models of all maps after the first `n_ops` ops
pub fn model_after(h: &History, n_ops: usize) -> Vec<BTreeMap<Vec<u8>, Vec<u8>>> {
    let keys: Vec<Vec<Vec<u8>>> = h
        .maps
        .iter()
        .map(|m| m.keys.iter().map(|k| k.bytes()).collect())
        .collect();
    let mut models: Vec<BTreeMap<Vec<u8>, Vec<u8>>> = vec![BTreeMap::new(); h.maps.len()];
    let mut cur = 0usize;
    let key = |m: usize, k: u32| -> Vec<u8> { keys[m][k as usize % keys[m].len()].clone() };
    for op in h.ops.iter().take(n_ops) {
        match op {
            Op::Put { k, v } | Op::Burst { k, v, .. } => {
                models[cur].insert(key(cur, *k), v.bytes());
            }
            Op::PutStr { k, v } => {
                models[cur].insert(key(cur, *k), lossy(&v.bytes()).into_bytes());
            }
            Op::Del { k } | Op::DelStr { k } => {
                models[cur].remove(&key(cur, *k));
            }
            Op::BulkDel { ks } | Op::BulkDelStr { ks } => {
                for k in ks {
                    models[cur].remove(&key(cur, *k));
                }
            }
            Op::BulkPut { kvs } | Op::BulkPutStr { kvs } => {
                let is_str = matches!(op, Op::BulkPutStr { .. });
                let mut seen: Vec<Vec<u8>> = Vec::new();
                for (k, v) in kvs {
                    let kb = key(cur, *k);
                    if seen.contains(&kb) {
                        continue;
                    }
                    seen.push(kb.clone());
                    let vb = if is_str { lossy(&v.bytes()).into_bytes() } else { v.bytes() };
                    models[cur].insert(kb, vb);
                }
            }
            Op::PutFromIter { kvs } => {
                for (k, v) in kvs {
                    models[cur].insert(key(cur, *k), v.bytes());
                }
            }
            Op::PutRel { k, mode, n } => {
                let kb = key(cur, *k);
                let v = rel_value(models[cur].get(&kb), *mode, *n, *k);
                models[cur].insert(kb, v);
            }
            Op::PutFromOwnIter { t } => {
                for v in models[cur].values_mut() {
                    *v = crate::dbx::own_iter_transform(*t, v);
                }
            }
            Op::Use { m } => cur = *m as usize % h.maps.len(),
            _ => {}
        }
    }
    models
}
