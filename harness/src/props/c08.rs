//! C08 — internal record relocation and chain relinking are invisible.
//! Breadth-first enumeration of the on-disk image graph over a small colliding alphabet.
use super::*;
use crate::dbx::{open_map, MapH};
use crate::decoder::{self, vu64_len, Decoded};
use crate::exec::{file_names, fnv, read_files};
use crate::gen::target_keys;
use serde::{Deserialize, Serialize};
use std::collections::{BTreeMap, HashMap, VecDeque};
use std::path::Path;

pub struct C08;

/// start images
const VARIANTS_QUICK: [&str; 9] = [
    "empty",
    "val-below-16k",
    "val-above-16k",
    "key-below-16k",
    "key-above-16k",
    "both-below-16k",
    "both-above-16k",
    // walk-only start images (large files: no image restore between steps)
    "walk-aged-large-free",
    "walk-val-above-16m",
];
const VARIANTS_THOROUGH: [&str; 13] = [
    "walk-aged-large-free",
    "walk-val-above-16m",
    "empty",
    "val-below-16k",
    "val-above-16k",
    "key-below-16k",
    "key-above-16k",
    "both-below-16k",
    "both-above-16k",
    "val-below-2m",
    "val-above-2m",
    "key-below-2m",
    "key-above-2m",
];

const VAL_SIZES: [u32; 4] = [0, 14, 15, 1100];

/// value sizes of the put transitions; the aged image (thousands of free large slots) also asks
/// for a slot none of the freed ones can hold
fn val_size(variant: &str, i: usize) -> u32 {
    if variant == "walk-aged-large-free" {
        [0u32, 15, 1100, 5000][i % 4]
    } else {
        VAL_SIZES[i % 4]
    }
}
const KEY_LENS: [u32; 4] = [10, 11, 19, 26];
const BUCKET: u64 = 5;

#[derive(Serialize, Deserialize, Clone, Debug)]
pub struct C08Case {
    pub variant: String,
    /// transition indices from the start image
    pub path: Vec<u8>,
}

fn alphabet_keys() -> Vec<Vec<u8>> {
    let base: Vec<Key> = KEY_LENS.iter().enumerate().map(|(i, &l)| Key::P { len: l, seed: 40 + i as u32 }).collect();
    target_keys(base, 8, &[BUCKET]).iter().map(|k| k.bytes()).collect()
}

/// transition t: 0..16 put(k = t/4, size = VAL_SIZES[t%4]); 16..20 delete(k = t-16)
const N_TRANS: u8 = 20;

fn describe(t: u8) -> String {
    if t < 16 {
        format!("put(k{}, {} bytes)", t / 4, VAL_SIZES[(t % 4) as usize])
    } else {
        format!("delete(k{})", t - 16)
    }
}

fn filler_key(i: u32, len: u32) -> Vec<u8> {
    // any bucket but the alphabet's
    let mut seed = 9000 + i * 31;
    loop {
        let k = Key::P { len, seed }.bytes();
        if decoder::bucket_of(&k, 8) != BUCKET {
            return k;
        }
        seed += 1;
    }
}

struct Seed {
    files: [Vec<u8>; 3],
    model: BTreeMap<Vec<u8>, Vec<u8>>,
}

fn params() -> Params {
    Params::plain(Buckets::BucketsSize(8))
}

fn io<T>(r: std::io::Result<T>, what: &str) -> Result<T, Failure> {
    r.map_err(|e| Failure::new("error", None, format!("{what} returned Err: {e}")))
}

/// build the start image of a variant in `dir`.
///
/// The ends of the key / value file are steered independently: a pool of freed 16-byte slots in
/// both files lets a filler entry grow only one of the two files (its other record reuses a
/// freed slot).
fn build_seed(variant: &str, dir: &Path) -> Result<Seed, Failure> {
    let mut model: BTreeMap<Vec<u8>, Vec<u8>> = BTreeMap::new();
    {
        let db = io(abyssiniandb::open_file(dir), "open_file")?;
        let mut m = io(open_map(&db, "c", Kt::Bytes, &params()), "open map")?;
        if variant == "walk-aged-large-free" {
            // 1300 entries with values of 1100..1500 bytes, every second one deleted again
            let mut ks = Vec::new();
            for i in 0..2600u32 {
                let k = filler_key(50_000 + i, 9);
                let v = pattern_bytes(1100 + (i as usize % 4) * 128, i);
                io(m.put(&k, &v), "put (seed)")?;
                model.insert(k.clone(), v);
                ks.push(k);
            }
            for (i, k) in ks.iter().enumerate() {
                if i % 2 == 0 {
                    io(m.delete(k), "delete (seed)")?;
                    model.remove(k);
                }
            }
        }
        if variant == "walk-val-above-16m" {
            // the value file ends beyond 16 MiB: offsets/8 of new records need a 4-byte code
            for i in 0..2u32 {
                let k = filler_key(60_000 + i, 9);
                let v = pattern_bytes(8 * 1024 * 1024 + 4096, i);
                io(m.put(&k, &v), "put (seed)")?;
                model.insert(k, v);
            }
        }
        let target: Option<i64> = if variant.ends_with("16k") {
            Some(16384)
        } else if variant.ends_with("2m") {
            Some(2 * 1024 * 1024)
        } else {
            None
        };
        let want_val = variant.starts_with("val") || variant.starts_with("both");
        let want_key = variant.starts_with("key") || variant.starts_with("both");
        let above = variant.contains("above");
        let mut fi = 0u32;
        let mut put = |m: &mut Box<dyn MapH>, model: &mut BTreeMap<Vec<u8>, Vec<u8>>, kl: u32, vl: usize| -> Result<Vec<u8>, Failure> {
            fi += 1;
            let k = filler_key(fi, kl);
            let v = pattern_bytes(vl, fi);
            io(m.put(&k, &v), "put (seed)")?;
            model.insert(k.clone(), v);
            Ok(k)
        };
        let sizes = |dir: &Path, m: &mut Box<dyn MapH>| -> Result<(i64, i64), Failure> {
            io(m.flush(), "flush (seed)")?;
            let f = read_files(dir, "c").map_err(|e| Failure::new("infra", None, format!("read: {e}")))?;
            Ok((f[1].len() as i64, f[2].len() as i64))
        };
        if let Some(b) = target {
            // entries whose records have the alphabet's slot classes; deleted at the end so that
            // free slots of those classes lie below the boundary
            let mut small: Vec<Vec<u8>> = Vec::new();
            for (kl, vl) in [(10u32, 14usize), (11, 15), (19, 0), (26, 14), (10, 1100), (12, 1100)] {
                small.push(put(&mut m, &mut model, kl, vl)?);
            }
            // coarse: leave 1500..2900 bytes of room in the files that are steered
            if want_val {
                let (_, vlen) = sizes(dir, &mut m)?;
                let big = b - vlen - 2200;
                if big > 1200 {
                    put(&mut m, &mut model, 14, big as usize)?;
                }
            }
            if want_key {
                loop {
                    let (klen, _) = sizes(dir, &mut m)?;
                    let room = b - klen;
                    if room <= 2900 {
                        break;
                    }
                    let kl: u32 = if room > 70000 { 65000 } else if room > 4400 { 1000 } else { 240 };
                    put(&mut m, &mut model, kl, 0)?;
                }
            }
            // a pool of freed 16-byte slots in both files
            let mut pool = Vec::new();
            for _ in 0..60 {
                pool.push(put(&mut m, &mut model, 9, 3)?);
            }
            for k in pool {
                io(m.delete(&k), "delete (seed)")?;
                model.remove(&k);
            }
            // fine: value file only (9-byte keys reuse freed 16-byte key slots)
            if want_val {
                let mut guard = 0;
                loop {
                    let (_, vlen) = sizes(dir, &mut m)?;
                    let room = b - vlen;
                    if (!above && room <= 48 && room > 0) || (above && room <= 0) {
                        break;
                    }
                    if room <= 0 {
                        return Err(Failure::new("infra", None, format!("seed {variant}: overshot the value file boundary ({room})")));
                    }
                    // value slot classes: 128 (len<=125), 64 (<=62), 32 (<=30), 24 (<=22)
                    let vl = if room > 260 { 125 } else if room > 120 { 62 } else if room > 80 { 30 } else { 20 };
                    put(&mut m, &mut model, 9, vl)?;
                    guard += 1;
                    if guard > 400 {
                        return Err(Failure::new("infra", None, format!("seed {variant}: cannot reach the value file boundary")));
                    }
                }
            }
            // fine: key file only (3-byte values reuse freed 16-byte value slots)
            if want_key {
                let mut guard = 0;
                loop {
                    let (klen, _) = sizes(dir, &mut m)?;
                    let room = b - klen;
                    if (!above && room <= 48 && room > 0) || (above && room <= 0) {
                        break;
                    }
                    if room <= 0 {
                        return Err(Failure::new("infra", None, format!("seed {variant}: overshot the key file boundary ({room})")));
                    }
                    // key slot classes: 128 (len ~120), 64 (~56), 32 (~24), 24 (~17)
                    let kl = if room > 260 { 118 } else if room > 120 { 54 } else if room > 80 { 22 } else { 16 };
                    put(&mut m, &mut model, kl, 3)?;
                    guard += 1;
                    if guard > 400 {
                        return Err(Failure::new("infra", None, format!("seed {variant}: cannot reach the key file boundary")));
                    }
                }
            }
            for k in small.iter().take(5) {
                io(m.delete(k), "delete (seed)")?;
                model.remove(k);
            }
        }
    }
    let files = read_files(dir, "c").map_err(|e| Failure::new("infra", None, format!("read: {e}")))?;
    Ok(Seed { files, model })
}

/// sparse image: blocks of 64 bytes that differ from the seed
#[derive(Clone)]
struct Img {
    lens: [usize; 3],
    diffs: [Vec<(u32, Vec<u8>)>; 3],
}

const BLK: usize = 64;

fn compress(seed: &[Vec<u8>; 3], files: &[Vec<u8>; 3]) -> Img {
    let mut img = Img {
        lens: [files[0].len(), files[1].len(), files[2].len()],
        diffs: [Vec::new(), Vec::new(), Vec::new()],
    };
    for i in 0..3 {
        let f = &files[i];
        let s = &seed[i];
        let mut o = 0;
        while o < f.len() {
            let e = (o + BLK).min(f.len());
            let same = e <= s.len() && f[o..e] == s[o..e];
            if !same {
                img.diffs[i].push((o as u32, f[o..e].to_vec()));
            }
            o = e;
        }
    }
    img
}

fn expand(seed: &[Vec<u8>; 3], img: &Img) -> [Vec<u8>; 3] {
    let mut out = [Vec::new(), Vec::new(), Vec::new()];
    for i in 0..3 {
        let mut f = seed[i].clone();
        f.resize(img.lens[i], 0);
        for (o, b) in &img.diffs[i] {
            f[*o as usize..*o as usize + b.len()].copy_from_slice(b);
        }
        out[i] = f;
    }
    out
}

fn digest(files: &[Vec<u8>; 3]) -> (u64, u64) {
    (
        fnv(&files[0]) ^ fnv(&files[1]).rotate_left(21) ^ fnv(&files[2]).rotate_left(42),
        fnv(&files[2]).wrapping_mul(31).wrapping_add(fnv(&files[1])),
    )
}

struct StepOut {
    files: [Vec<u8>; 3],
    model: BTreeMap<Vec<u8>, Vec<u8>>,
    relocated: bool,
    width_changed: bool,
    decoded: Decoded,
}

macro_rules! sfail {
    ($kind:expr, $($arg:tt)*) => { return Err(Failure::new($kind, None, format!($($arg)*))) };
}

/// one transition: restore image, open, one call, observe, close, decode
#[allow(clippy::too_many_arguments)]
fn step(
    dir: &Path,
    files: &[Vec<u8>; 3],
    model: &BTreeMap<Vec<u8>, Vec<u8>>,
    before: Option<&Decoded>,
    t: u8,
    keys: &[Vec<u8>],
    fillers: &[Vec<u8>],
) -> Result<StepOut, Failure> {
    step_v(dir, files, model, before, t, keys, fillers, "", false)
}

/// `on_disk`: the directory already holds exactly `files` (walks: no restore needed)
#[allow(clippy::too_many_arguments)]
fn step_v(
    dir: &Path,
    files: &[Vec<u8>; 3],
    model: &BTreeMap<Vec<u8>, Vec<u8>>,
    before: Option<&Decoded>,
    t: u8,
    keys: &[Vec<u8>],
    fillers: &[Vec<u8>],
    variant: &str,
    on_disk: bool,
) -> Result<StepOut, Failure> {
    crate::exec::tick();
    let names = file_names("c");
    if !on_disk {
        for i in 0..3 {
            std::fs::write(dir.join(&names[i]), &files[i]).map_err(|e| Failure::new("infra", None, format!("write: {e}")))?;
        }
    }
    let mut model = model.clone();
    {
        let db = io(abyssiniandb::open_file(dir), "open_file")?;
        let mut m = io(open_map(&db, "c", Kt::Bytes, &params()), "open map")?;
        if t < 16 {
            let k = &keys[(t / 4) as usize];
            let v = pattern_bytes(val_size(variant, (t % 4) as usize) as usize, t as u32);
            io(m.put(k, &v), &describe(t))?;
            model.insert(k.clone(), v);
        } else {
            let k = &keys[(t - 16) as usize];
            let exp = model.remove(k);
            let got = io(m.delete(k), &describe(t))?;
            if got != exp {
                sfail!("mismatch", "{} returned {:?} bytes, the model says {:?}", describe(t), got.map(|g| g.len()), exp.map(|g| g.len()));
            }
        }
        for k in keys.iter().chain(fillers.iter()) {
            let got = io(m.get(k), "get")?;
            if got.as_ref() != model.get(k) {
                let who = if keys.contains(k) { "alphabet key" } else { "an unrelated (filler) entry" };
                sfail!(
                    "mismatch",
                    "after {}: get of {who} {} returns {:?} bytes, expected {:?}",
                    describe(t),
                    hex(&k[..k.len().min(10)]),
                    got.map(|g| g.len()),
                    model.get(k).map(|g| g.len())
                );
            }
        }
        let l = io(m.len(), "len")?;
        if l != model.len() as u64 {
            sfail!("mismatch", "after {}: len() = {l}, expected {}", describe(t), model.len());
        }
    }
    let nf = read_files(dir, "c").map_err(|e| Failure::new("infra", None, format!("read: {e}")))?;
    let d = decoder::decode(Kt::Bytes, &nf[0], &nf[1], &nf[2]);
    if let Some(c) = d.header.first().or(d.structure.first()) {
        sfail!("structure", "after {}: {c}", describe(t));
    }
    if let Some(c) = d.tiling.first() {
        sfail!("tiling", "after {}: {c}", describe(t));
    }
    if d.contents() != model {
        sfail!("structure", "after {}: decoded contents differ from the model", describe(t));
    }
    let mut relocated = false;
    let mut width_changed = false;
    if let Some(b) = before {
        let pm: HashMap<&Vec<u8>, (u64, u64, u64)> = b.entries.iter().map(|e| (&e.key, (e.key_off, e.val_off, e.next))).collect();
        for e in &d.entries {
            if let Some(&(ko, vo, nx)) = pm.get(&e.key) {
                if ko != e.key_off {
                    relocated = true;
                }
                if vu64_len(vo / 8) != vu64_len(e.val_off / 8) || vu64_len(nx / 8) != vu64_len(e.next / 8) {
                    width_changed = true;
                }
            }
        }
    }
    Ok(StepOut {
        files: nf,
        model,
        relocated,
        width_changed,
        decoded: d,
    })
}

#[derive(Serialize, Deserialize, Clone, Debug, Default)]
pub struct BfsStats {
    pub variant: String,
    pub states: u64,
    pub transitions: u64,
    pub closed: bool,
    pub nontrivial_transitions: u64,
    pub relocations: u64,
    pub width_changes: u64,
    pub max_depth: u64,
    #[serde(default)]
    pub walk_transitions: u64,
    pub seed_key_len: u64,
    pub seed_val_len: u64,
}

fn cap(tier: Tier) -> u64 {
    tier.pick(3000, 60000)
}

fn bfs(variant: &str, cap: u64, walk_seed: u64, n_walks: u64, walk_len: u64, w: &WCtx) -> Result<(BfsStats, Vec<u64>), (Failure, C08Case)> {
    let keys = alphabet_keys();
    let sdir = w.fresh_dir();
    let seed = build_seed(variant, &sdir).map_err(|f| (f, C08Case { variant: variant.into(), path: vec![] }))?;
    w.cleanup(&sdir);
    let fillers: Vec<Vec<u8>> = seed.model.keys().cloned().collect();
    // do not look up thousands of fillers per transition: a sample, plus the ones in the seed's small set
    let fillers: Vec<Vec<u8>> = if fillers.len() > 24 {
        let stepn = fillers.len() / 24;
        fillers.iter().step_by(stepn.max(1)).cloned().collect()
    } else {
        fillers
    };
    let walk_only = variant.starts_with("walk-");
    let cap = if walk_only { 1 } else { cap };
    let n_walks = if walk_only { (n_walks / 4).max(20) } else { n_walks };
    let walk_len = if walk_only { 25 } else { walk_len };
    let mut stats = BfsStats {
        variant: variant.into(),
        seed_key_len: seed.files[1].len() as u64,
        seed_val_len: seed.files[2].len() as u64,
        ..Default::default()
    };
    let d0 = decoder::decode(Kt::Bytes, &seed.files[0], &seed.files[1], &seed.files[2]);
    if let Some(c) = d0.header.first().or(d0.structure.first()).or(d0.tiling.first()) {
        return Err((
            Failure::new("structure", None, format!("start image {variant}: {c}")),
            C08Case { variant: variant.into(), path: vec![] },
        ));
    }
    struct Node {
        img: Img,
        model_digest: u64,
        path: Vec<u8>,
    }
    let model_digest = |m: &BTreeMap<Vec<u8>, Vec<u8>>| -> u64 {
        let mut h = 0u64;
        for (k, v) in m {
            h = h.wrapping_mul(1099511628211).wrapping_add(fnv(k) ^ fnv(v).rotate_left(13));
        }
        h
    };
    let mut seen: HashMap<(u64, u64), u64> = HashMap::new();
    // queued states keep only the alphabet part of the model (the filler entries never change;
    // keeping thousands of full models of a multi-megabyte image exhausts the memory)
    let small = |m: &BTreeMap<Vec<u8>, Vec<u8>>| -> BTreeMap<Vec<u8>, Vec<u8>> {
        keys.iter().filter_map(|k| m.get(k).map(|v| (k.clone(), v.clone()))).collect()
    };
    let mut base_model = seed.model.clone();
    for k in &keys {
        base_model.remove(k);
    }
    let mut queue: VecDeque<(Node, BTreeMap<Vec<u8>, Vec<u8>>)> = VecDeque::new();
    seen.insert(digest(&seed.files), model_digest(&seed.model));
    queue.push_back((
        Node {
            img: compress(&seed.files, &seed.files),
            model_digest: model_digest(&seed.model),
            path: vec![],
        },
        small(&seed.model),
    ));
    stats.states = 1;
    let dir = w.fresh_dir();
    let mut nt: Vec<u64> = Vec::new();
    let mut truncated = false;
    while let Some((node, model_small)) = queue.pop_front() {
        let mut model = base_model.clone();
        model.extend(model_small);
        let files = expand(&seed.files, &node.img);
        let before = decoder::decode(Kt::Bytes, &files[0], &files[1], &files[2]);
        let _ = node.model_digest;
        for t in 0..N_TRANS {
            let mut path = node.path.clone();
            path.push(t);
            w.note_current(&json!({"variant": variant, "path": path}));
            let r = {
                crate::runner::quiet_panics(true);
                let r = std::panic::catch_unwind(std::panic::AssertUnwindSafe(|| step_v(&dir, &files, &model, Some(&before), t, &keys, &fillers, variant, false)));
                crate::runner::quiet_panics(false);
                match r {
                    Ok(x) => x,
                    Err(p) => Err(Failure::new("panic", None, format!("{} panicked: {}", describe(t), crate::runner::panic_text(&p)))),
                }
            };
            stats.transitions += 1;
            let so = match r {
                Ok(s) => s,
                Err(mut f) => {
                    w.cleanup(&dir);
                    f.op = Some(path.len() - 1);
                    f.msg = format!("[start image {variant}, path {:?}] {}", path.iter().map(|t| describe(*t)).collect::<Vec<_>>(), f.msg);
                    return Err((f, C08Case { variant: variant.into(), path }));
                }
            };
            if so.relocated || so.width_changed {
                stats.nontrivial_transitions += 1;
                nt.push(digest(&files).0 ^ (t as u64).wrapping_mul(0x9E3779B97F4A7C15));
                if so.relocated {
                    stats.relocations += 1;
                }
                if so.width_changed {
                    stats.width_changes += 1;
                }
            }
            let dg = digest(&so.files);
            let md = model_digest(&so.model);
            match seen.get(&dg) {
                Some(&m0) => {
                    if m0 != md {
                        w.cleanup(&dir);
                        let f = Failure::new(
                            "mismatch",
                            Some(path.len() - 1),
                            format!("[start image {variant}] two call paths lead to byte-identical files but different model contents (path {:?})", path),
                        );
                        return Err((f, C08Case { variant: variant.into(), path }));
                    }
                }
                None => {
                    if stats.states < cap {
                        seen.insert(dg, md);
                        stats.states += 1;
                        stats.max_depth = stats.max_depth.max(path.len() as u64);
                        queue.push_back((
                            Node {
                                img: compress(&seed.files, &so.files),
                                model_digest: md,
                                path,
                            },
                            small(&so.model),
                        ));
                    } else {
                        truncated = true;
                    }
                }
            }
            let _ = so.decoded;
        }
    }
    // beyond the breadth-first frontier: seeded random deep walks from the start image
    if truncated {
        let mut rng = crate::runner::splitmix(walk_seed ^ fnv(variant.as_bytes()));
        for _walk in 0..n_walks {
            let mut files = seed.files.clone();
            let mut model = seed.model.clone();
            let mut path: Vec<u8> = Vec::new();
            for _ in 0..walk_len {
                rng = crate::runner::splitmix(rng);
                let t = (rng % N_TRANS as u64) as u8;
                path.push(t);
                w.note_current(&json!({"variant": variant, "path": path}));
                let before = decoder::decode(Kt::Bytes, &files[0], &files[1], &files[2]);
                crate::runner::quiet_panics(true);
                let r = std::panic::catch_unwind(std::panic::AssertUnwindSafe(|| step_v(&dir, &files, &model, Some(&before), t, &keys, &fillers, variant, path.len() > 1)));
                crate::runner::quiet_panics(false);
                let r = match r {
                    Ok(x) => x,
                    Err(p) => Err(Failure::new("panic", None, format!("{} panicked: {}", describe(t), crate::runner::panic_text(&p)))),
                };
                stats.transitions += 1;
                stats.walk_transitions += 1;
                match r {
                    Ok(so) => {
                        if so.relocated || so.width_changed {
                            stats.nontrivial_transitions += 1;
                            nt.push(digest(&files).0 ^ (t as u64).wrapping_mul(0x9E3779B97F4A7C15));
                            if so.relocated {
                                stats.relocations += 1;
                            }
                            if so.width_changed {
                                stats.width_changes += 1;
                            }
                        }
                        if seen.insert(digest(&so.files), model_digest(&so.model)).is_none() {
                            stats.states += 1;
                        }
                        files = so.files;
                        model = so.model;
                    }
                    Err(mut f) => {
                        w.cleanup(&dir);
                        f.op = Some(path.len() - 1);
                        f.msg = format!("[start image {variant}, random walk of {} calls] {}", path.len(), f.msg);
                        return Err((f, C08Case { variant: variant.into(), path }));
                    }
                }
            }
        }
    }
    w.cleanup(&dir);
    stats.closed = !truncated;
    Ok((stats, nt))
}

fn replay_path(c: &C08Case, w: &WCtx) -> Result<Report, Failure> {
    let keys = alphabet_keys();
    let sdir = w.fresh_dir();
    let seed = build_seed(&c.variant, &sdir)?;
    w.cleanup(&sdir);
    let fillers: Vec<Vec<u8>> = seed.model.keys().cloned().collect();
    let dir = w.fresh_dir();
    let mut files = seed.files.clone();
    let mut model = seed.model.clone();
    let ctx = crate::exec::Ctx {
        dir: dir.clone(),
        exe: None,
        cur_op: std::cell::Cell::new(0),
    };
    let r = guarded(&ctx, || {
        for (i, &t) in c.path.iter().enumerate() {
            ctx.cur_op.set(i);
            let before = decoder::decode(Kt::Bytes, &files[0], &files[1], &files[2]);
            let so = step_v(&dir, &files, &model, Some(&before), t, &keys, &fillers, &c.variant, i > 0).map_err(|mut f| {
                f.op = Some(i);
                f
            })?;
            files = so.files;
            model = so.model;
        }
        Ok(Report::default())
    });
    w.cleanup(&dir);
    r
}

fn variants(tier: Tier) -> Vec<&'static str> {
    match tier {
        Tier::Quick => VARIANTS_QUICK.to_vec(),
        Tier::Thorough => VARIANTS_THOROUGH.to_vec(),
    }
}

// ------------------------------------------------------------------------------------------
// session histories: the breadth-first search above opens, makes one call and closes, so state the
// crate keeps in memory between calls never survives a transition.  These cases keep ONE session
// open over a whole random history on a few colliding keys and observe it only through the files
// (flush + independent decode after every call in every second case): no lookups other than the
// generated ones disturb the in-memory state.

fn session_cfg(tier: Tier, index: u64) -> crate::gen::HistCfg {
    use crate::gen::*;
    let mut w = Weights::basic();
    w.put = 50;
    w.del = 14;
    w.get = 22;
    w.inc = 4;
    w.len = 1;
    w.is_empty = 0;
    w.iter = 2;
    w.reopen = if index % 3 == 0 { 1 } else { 0 };
    let mut c = HistCfg {
        kts: if index % 5 == 4 { Kt::ALL.to_vec() } else { vec![Kt::Bytes, Kt::String] },
        key: KeyProfile::Medium,
        n_keys: 2..=9,
        bufs: if index % 4 == 1 { BufProfile::Any } else { BufProfile::Plain },
        allow_lt8: true,
        max_buckets: if index % 7 == 6 { 64 } else { 3 },
        ops: OpsCfg {
            w,
            val: if index % 6 == 5 { ValProfile::Small } else { ValProfile::Mixed },
            n_ops: tier.pick(10..=260, 10..=600),
            reopen_params: None,
            reopen_child: false,
            max_batch: 0,
            n_maps: 1,
        },
        obs: Obs {
            decode_every_op: index % 2 == 0,
            decode_at_close: true,
            tiling: true,
            ..Default::default()
        },
        target_pct: 0,
        prelude: Prelude::None,
        phases: false,
        special_keys: false,
        default_table: false,
        big_table: None,
        empty_mid: false,
        empty_end: false,
    };
    rare_regions(&mut c, index);
    if c.prelude != Prelude::None {
        c.ops.n_ops = tier.pick(10..=60, 10..=120);
    }
    c
}

fn sessions() -> HistProp {
    HistProp {
        id: "C08",
        level: "exploration",
        rule: "",
        assumptions: &[],
        cfg: session_cfg,
        n: |t| t.pick(4000, 20000),
        nontrivial: |_h, r| r.has("key_record_relocated") || (r.has("chain_ge3") && r.has("overwrite_other_class") && r.has("delete_present")),
        timeout: |t| t.pick(120, 300),
        shrink_iters: 600,
    }
}

impl Prop for C08 {
    fn id(&self) -> &'static str {
        "C08"
    }
    fn rule(&self) -> String {
        "bounded-exhaustive breadth-first enumeration of ON-DISK IMAGES: 8-bucket table, alphabet of 4 keys that all hash to one bucket with lengths 10, 11, 19, 26 (tight for their key slots), value sizes {0, 14, 15, 1100}; 20 transitions per image (16 put(k,size), 4 delete(k)); start images: empty, two walk-only images (an aged store with 1300 slots on the shared large free list and transitions that also ask for 5000 bytes; a value file beyond 16 MiB), and seeded images built from filler entries in other buckets so that the end of the value file, of the key file, or of both lies within 48 bytes below / at or above 16 KiB (thorough: also 2 MiB), with freed slots of the alphabet's classes lying below the boundary. Image identity = digest of the three files; each transition = restore the image, open, one call, close. When the cap cuts the breadth-first search, 150 (thorough: 1500) seeded random walks of 30 calls from the start image go beyond the frontier with the same oracle. Oracle at every transition: the call's result vs the model, get of all alphabet keys and of (a sample of) the filler entries, len, then independent decode: structure, tiling, contents == model; two call paths to one image must carry one model. evaluations = transitions executed; states = distinct images (cap per start image: quick 3000, thorough 60000, 6000 for the 2 MiB images; evidence says per start image whether the graph was closed under the cap). Non-trivial: a transition in which a surviving key record changed its offset or one of its offset fields changed its encoded width (distinct by image digest x transition). SESSION HISTORIES (quick 4000, thorough 20000): because every transition above is its own open/call/close, state kept in memory between calls is out of its reach; these cases run one random history (put 50 / delete 14 / get 22 / ..., 10-260 calls, values crossing slot classes, files also beyond 16 KiB / 2 MiB / 16 MiB via preludes) on 2-9 keys in a table of 1-3 buckets within ONE session and observe it through the files only: flush + independent decode (structure, tiling, contents == model) after every call in every second case, at close in all; results of the generated calls vs the model. Non-trivial: a surviving key record moved, or a chain of >= 3 with class-changing overwrites and deletes (distinct by case digest)."
            .to_string()
    }
    fn assumptions(&self) -> Vec<String> {
        vec!["image identity uses a 128-bit non-cryptographic digest of the three files".into()]
    }
    fn n_cases(&self, tier: Tier) -> u64 {
        variants(tier).len() as u64 + sessions().n_cases(tier)
    }
    fn timeout_s(&self, tier: Tier) -> u64 {
        tier.pick(300, 3000)
    }
    fn exhaustive(&self, _tier: Tier) -> bool {
        false
    }
    fn run_case(&self, tier: Tier, _seed: u64, index: u64, w: &WCtx) -> CaseOut {
        let vs = variants(tier);
        if index >= vs.len() as u64 {
            return sessions().run_case(tier, _seed, index, w);
        }
        let v = vs[index as usize % vs.len()];
        let mut out = CaseOut {
            index,
            profile: w.profile.clone(),
            ..Default::default()
        };
        // every transition of a 2 MiB image restores, writes and decodes 2 MiB x 3: a tenth of the cap
        let cap_v = if v.ends_with("-2m") { cap(tier) / 10 } else { cap(tier) };
        match bfs(v, cap_v, _seed, tier.pick(150, 1500), 30, w) {
            Ok((st, nt)) => {
                out.evals = st.transitions;
                out.nontrivial = nt;
                out.labels.insert("states".into(), st.states);
                out.labels.insert("relocations".into(), st.relocations);
                out.labels.insert("offset_width_changes".into(), st.width_changes);
                out.labels.insert(if st.closed { "graph_closed".into() } else { "graph_capped".into() }, 1);
                out.sample = Some(json!({"start_image": v, "example_path": [describe(0), describe(7), describe(17)], "bfs": st}));
                out.extra = Some(serde_json::to_value(&st).unwrap());
            }
            Err((f, c)) => {
                out.evals = 1;
                out.failure = Some(f);
                out.case = Some(serde_json::to_value(&c).unwrap());
            }
        }
        out
    }
    fn gen_case(&self, tier: Tier, _seed: u64, index: u64) -> Value {
        let vs = variants(tier);
        if index >= vs.len() as u64 {
            return sessions().gen_case(tier, _seed, index);
        }
        json!({"variant": vs[index as usize % vs.len()], "path": []})
    }
    fn replay(&self, case: &Value, w: &WCtx) -> Result<Report, Failure> {
        if case.get("ops").is_some() {
            return sessions().replay(case, w);
        }
        let c: C08Case = serde_json::from_value(case.clone())
            .map_err(|e| Failure::new("infra", None, format!("bad replay file: {e}")))?;
        replay_path(&c, w)
    }
    fn reductions(&self, case: &Value) -> Vec<Value> {
        history_reductions(case)
    }
    fn summarize(&self, extras: &[Value]) -> Option<Value> {
        let mut states = 0u64;
        let mut trans = 0u64;
        let mut all_closed = true;
        for e in extras {
            states += e["states"].as_u64().unwrap_or(0);
            trans += e["transitions"].as_u64().unwrap_or(0);
            if !e["closed"].as_bool().unwrap_or(false) {
                all_closed = false;
            }
        }
        Some(json!({"states": states, "transitions": trans, "per_start_image": extras, "exhaustive": all_closed}))
    }
}
