//! C10 — typed integer and string keys are faithful.
use super::*;
use crate::dbx::open_map;
use crate::gen::int_strategy;
use abyssiniandb::{DbBytes, DbI64, DbMapKeyType, DbString, DbU64, DbVu64, HashValue};
use proptest::prelude::*;
use serde::{Deserialize, Serialize};
use std::cmp::Ordering;
use std::collections::BTreeMap;

pub struct C10;

#[derive(Serialize, Deserialize, Clone, Debug)]
pub enum C10Case {
    /// pairs of integers: pure conversion laws
    Ints(Vec<(u64, u64)>),
    /// a typed map: put all xs (value = decimal text), look up ys
    Map { kt: Kt, buckets: Buckets, xs: Vec<u64>, ys: Vec<u64> },
    /// byte/string keys: all From forms of the same bytes address one entry
    Bytes { kt: Kt, keys: Vec<Vec<u8>> },
    /// thousands of short keys of mixed lengths (the key file passes 128 KiB buffer-chunk boundaries
    /// with records at every alignment): what the iterators return is exactly what was put
    ManyKeys { kt: Kt, n: u32, seed: u32 },
    /// a whole session on a typed map (mostly the integer key types) in a table of 1-3 buckets:
    /// every key keeps addressing its own entry through puts, overwrites, deletes and re-puts
    Hist(History),
}

fn hist_cfg(tier: Tier, index: u64) -> crate::gen::HistCfg {
    use crate::gen::*;
    let mut w = Weights::basic();
    w.put = 45;
    w.del = 16;
    w.get = 22;
    w.inc = 5;
    w.iter = 2;
    w.len = 1;
    w.reopen = if index % 3 == 0 { 1 } else { 0 };
    let mut c = HistCfg {
        kts: if index % 4 == 0 { vec![Kt::Bytes, Kt::String] } else { vec![Kt::U64, Kt::I64, Kt::Vu64] },
        key: KeyProfile::Short,
        n_keys: 2..=14,
        bufs: BufProfile::Plain,
        allow_lt8: true,
        max_buckets: if index % 7 == 3 { 4096 } else { 3 },
        ops: OpsCfg {
            w,
            val: ValProfile::Small,
            n_ops: tier.pick(5..=200, 5..=500),
            reopen_params: None,
            reopen_child: false,
            max_batch: 0,
            n_maps: 1,
        },
        obs: Obs {
            decode_at_close: true,
            ..Default::default()
        },
        target_pct: 0,
        prelude: Prelude::None,
        phases: false,
        special_keys: index % 4 == 0,
        default_table: false,
        big_table: None,
        empty_mid: false,
        empty_end: false,
    };
    let _ = &mut c;
    c
}

fn pair_strategy() -> BoxedStrategy<(u64, u64)> {
    (int_strategy(), 0u8..8, 0u32..64, int_strategy())
        .prop_map(|(x, mode, bit, z)| {
            let y = match mode {
                0 => x,
                1 => x.wrapping_add(1),
                2 => x.wrapping_sub(1),
                3 => x ^ (1u64 << bit),
                4 => x.swap_bytes(),
                5 => x ^ (1u64 << (bit | 32)),
                6 => (x as u32) as u64,
                _ => z,
            };
            (x, y)
        })
        .boxed()
}

fn bytes_key_strategy() -> BoxedStrategy<Vec<Vec<u8>>> {
    // families of keys that are prefixes of each other, contain NULs, are not UTF-8
    let base = proptest::collection::vec(
        prop_oneof![
            3 => any::<u8>(),
            1 => Just(0u8),
            1 => Just(0xFFu8),
            2 => 0x20u8..0x7F,
        ],
        0..24,
    );
    proptest::collection::vec(base, 1..6)
        .prop_map(|bases| {
            let mut out: Vec<Vec<u8>> = Vec::new();
            for b in bases {
                for cut in 0..=b.len() {
                    out.push(b[..cut].to_vec());
                }
                let mut z = b.clone();
                z.push(0);
                out.push(z);
            }
            out.sort();
            out.dedup();
            out
        })
        // the order of insertion varies (the empty key, the shortest of every family, is not always first)
        .prop_flat_map(|out| {
            let n = out.len().max(1);
            (Just(out), 0..n)
        })
        .prop_map(|(mut out, r)| {
            out.rotate_left(r);
            if r % 3 == 2 {
                out.reverse();
            }
            out
        })
        .boxed()
}

/// families with very long keys (the key record's size field grows to three bytes at 128 KiB)
fn long_key_family() -> BoxedStrategy<Vec<Vec<u8>>> {
    (proptest::sample::select(vec![65536usize, 131000, 131072, 200000]), 0u32..50)
        .prop_map(|(len, seed)| {
            let base = pattern_bytes(len, seed);
            let mut out = vec![base.clone(), base[..len - 1].to_vec(), base[..len / 2].to_vec(), b"short".to_vec()];
            let mut z = base.clone();
            z.push(0);
            out.push(z);
            out.sort();
            out.dedup();
            out
        })
        .boxed()
}

fn strategy(tier: Tier, index: u64) -> BoxedStrategy<C10Case> {
    let n_pairs = tier.pick(400usize, 1000);
    if index % 200 == 7 {
        // thousands of integer keys in a one-bucket table
        return (
            proptest::sample::select(vec![Kt::U64, Kt::I64, Kt::Vu64]),
            proptest::collection::vec(pair_strategy(), 100..=300),
            4300u64..=9000,
            any::<u64>(),
        )
            .prop_map(|(kt, ps, n, start)| {
                // n DISTINCT integers (an arithmetic progression with an odd stride) + boundary values
                let stride = 0x9E37_79B9_7F4A_7C15u64;
                let mut xs: Vec<u64> = (0..n).map(|i| start.wrapping_add(i.wrapping_mul(stride))).collect();
                xs.extend(ps.iter().map(|p| p.0));
                let mut ys: Vec<u64> = ps.iter().map(|p| p.1).collect();
                ys.extend(xs.iter().take(50).copied());
                C10Case::Map { kt, buckets: Buckets::BucketsSize(1), xs, ys }
            })
            .boxed();
    }
    if index % 100 == 17 {
        return (proptest::sample::select(vec![Kt::Bytes, Kt::String]), 9000u32..=20000, any::<u32>())
            .prop_map(|(kt, n, seed)| C10Case::ManyKeys { kt, n, seed })
            .boxed();
    }
    if index % 5 == 4 {
        return crate::gen::history_strategy(hist_cfg(tier, index)).prop_map(C10Case::Hist).boxed();
    }
    if index % 50 == 11 {
        return (proptest::sample::select(vec![Kt::Bytes, Kt::String]), long_key_family())
            .prop_map(|(kt, keys)| C10Case::Bytes { kt, keys })
            .boxed();
    }
    match index % 4 {
        0 | 1 => proptest::collection::vec(pair_strategy(), n_pairs..=n_pairs)
            .prop_map(C10Case::Ints)
            .boxed(),
        2 => (
            proptest::sample::select(vec![Kt::U64, Kt::I64, Kt::Vu64]),
            crate::gen::buckets_strategy(true, 4096),
            proptest::collection::vec(pair_strategy(), 1..60),
        )
            .prop_map(|(kt, buckets, ps)| {
                let xs: Vec<u64> = ps.iter().map(|p| p.0).collect();
                let ys: Vec<u64> = ps.iter().map(|p| p.1).collect();
                C10Case::Map { kt, buckets, xs, ys }
            })
            .boxed(),
        _ => (proptest::sample::select(vec![Kt::Bytes, Kt::String]), bytes_key_strategy())
            .prop_map(|(kt, keys)| C10Case::Bytes { kt, keys })
            .boxed(),
    }
}

fn vu64_width(x: u64) -> u32 {
    crate::decoder::vu64_len(x)
}

macro_rules! bail {
    ($($arg:tt)*) => { return Err(Failure::new("mismatch", None, format!($($arg)*))) };
}

fn check_ints(ps: &[(u64, u64)], rep: &mut Report) -> Result<(), Failure> {
    for &(x, y) in ps {
        if x & 0x3f == 0 {
            crate::exec::tick();
        }
        // u64
        {
            let kx = DbU64::from(x);
            let kr = DbU64::from(&x);
            if kx != kr {
                bail!("DbU64: From<u64>({x}) != From<&u64>({x})");
            }
            if u64::from(&kx) != x || u64::from(kx.clone()) != x {
                bail!("DbU64: {x} -> key -> {} ", u64::from(&kx));
            }
            let ky = DbU64::from(y);
            if (kx == ky) != (x == y) {
                bail!("DbU64: key({x}) == key({y}) is {} ", kx == ky);
            }
            if (kx.cmp_u8(ky.as_bytes()) == Ordering::Equal) != (x == y) {
                bail!("DbU64: cmp_u8(key({x}), key({y})) == Equal is {}", x != y);
            }
            if x == y && kx.hash_value() != ky.hash_value() {
                bail!("DbU64: equal keys hash differently");
            }
            if DbU64::from_bytes(kx.as_bytes()) != kx {
                bail!("DbU64: from_bytes(as_bytes) differs for {x}");
            }
        }
        // i64
        {
            let (sx, sy) = (x as i64, y as i64);
            let kx = DbI64::from(sx);
            let kr = DbI64::from(&sx);
            if kx != kr {
                bail!("DbI64: From<i64>({sx}) != From<&i64>({sx})");
            }
            if i64::from(&kx) != sx || i64::from(kx.clone()) != sx {
                bail!("DbI64: {sx} -> key -> {}", i64::from(&kx));
            }
            let ky = DbI64::from(sy);
            if (kx == ky) != (sx == sy) {
                bail!("DbI64: key({sx}) == key({sy}) is {}", kx == ky);
            }
            if (kx.cmp_u8(ky.as_bytes()) == Ordering::Equal) != (sx == sy) {
                bail!("DbI64: cmp_u8(key({sx}), key({sy})) == Equal is {}", sx != sy);
            }
            if sx == sy && kx.hash_value() != ky.hash_value() {
                bail!("DbI64: equal keys hash differently");
            }
        }
        // vu64
        {
            let kx = DbVu64::from(x);
            let kr = DbVu64::from(&x);
            if kx != kr {
                bail!("DbVu64: From<u64>({x}) != From<&u64>({x})");
            }
            if u64::from(&kx) != x || u64::from(kx.clone()) != x {
                bail!("DbVu64: {x} -> key -> {}", u64::from(&kx));
            }
            // documented encoding (independent encoder)
            if kx.as_bytes() != crate::decoder::vu64_encode(x).as_slice() {
                bail!("DbVu64: encoding of {x} is {:?}, documented format gives {:?}", kx.as_bytes(), crate::decoder::vu64_encode(x));
            }
            let ky = DbVu64::from(y);
            if (kx == ky) != (x == y) {
                bail!("DbVu64: key({x}) == key({y}) is {}", kx == ky);
            }
            if (kx.cmp_u8(ky.as_bytes()) == Ordering::Equal) != (x == y) {
                bail!("DbVu64: cmp_u8(key({x}), key({y})) == Equal is {}", x != y);
            }
            if x == y && kx.hash_value() != ky.hash_value() {
                bail!("DbVu64: equal keys hash differently");
            }
        }
        rep.bump("pairs");
        if x != y && (x ^ y) >> 28 != 0 && (x ^ y) & 0x0FFF_FFFF == 0 {
            rep.bump("pair_differs_only_above_bit27");
        }
        if vu64_width(x) != vu64_width(x.wrapping_add(1)) || vu64_width(x) != vu64_width(x.wrapping_sub(1)) {
            rep.bump("vu64_width_boundary");
        }
    }
    Ok(())
}

fn int_key_bytes(kt: Kt, x: u64) -> Vec<u8> {
    match kt {
        Kt::Vu64 => crate::decoder::vu64_encode(x),
        _ => x.to_le_bytes().to_vec(),
    }
}

fn check_map(kt: Kt, buckets: Buckets, xs: &[u64], ys: &[u64], w: &WCtx, rep: &mut Report) -> Result<(), Failure> {
    let ctx = w.ctx();
    let r = guarded(&ctx, || {
        let db = abyssiniandb::open_file(&ctx.dir).map_err(|e| Failure::new("error", None, format!("open_file: {e}")))?;
        let mut m = open_map(&db, "t", kt, &Params::plain(buckets))
            .map_err(|e| Failure::new("error", None, format!("open map: {e}")))?;
        let mut model: BTreeMap<u64, Vec<u8>> = BTreeMap::new();
        for &x in xs {
            let v = format!("{x}").into_bytes();
            m.put(&int_key_bytes(kt, x), &v)
                .map_err(|e| Failure::new("error", None, format!("put: {e}")))?;
            model.insert(x, v);
        }
        for &y in ys.iter().chain(xs.iter()) {
            let got = m
                .get(&int_key_bytes(kt, y))
                .map_err(|e| Failure::new("error", None, format!("get: {e}")))?;
            let exp = model.get(&y).cloned();
            if got != exp {
                bail!(
                    "{} map: after putting {:?}..., get({y}) = {:?} but expected {:?}",
                    kt.name(),
                    &xs[..xs.len().min(4)],
                    got.map(|v| String::from_utf8_lossy(&v).to_string()),
                    exp.map(|v| String::from_utf8_lossy(&v).to_string())
                );
            }
        }
        // keys returned by iteration convert back to exactly the inserted integers
        let out = m.iterate(0, None, 0);
        let mut seen: Vec<i128> = Vec::new();
        for (k, v) in &out.items {
            let k = k.as_ref().unwrap();
            let n = m.key_to_int(k).unwrap();
            let as_u = if kt == Kt::I64 { (n as i64) as u64 } else { n as u64 };
            if model.get(&as_u) != v.as_ref() {
                bail!("{} map: iteration yielded key converting to {n} with a value that was not put for it", kt.name());
            }
            seen.push(n);
        }
        seen.sort();
        let mut exp: Vec<i128> = model
            .keys()
            .map(|&x| if kt == Kt::I64 { (x as i64) as i128 } else { x as i128 })
            .collect();
        exp.sort();
        if seen != exp {
            bail!("{} map: integers recovered from keys()/iter() differ from the inserted set", kt.name());
        }
        let l = m.len().map_err(|e| Failure::new("error", None, format!("len: {e}")))?;
        if l != model.len() as u64 {
            bail!("{} map: len {l} != {} distinct integers", kt.name(), model.len());
        }
        Ok(Report::default())
    });
    w.cleanup(&ctx.dir);
    r?;
    rep.bump("typed_maps");
    if xs.iter().any(|&x| x >> 28 != 0) {
        rep.bump("map_with_key_above_bit27");
    }
    Ok(())
}

fn check_bytes(kt: Kt, keys: &[Vec<u8>], w: &WCtx, rep: &mut Report) -> Result<(), Failure> {
    use abyssiniandb::{DbXxx, DbXxxBase};
    let ctx = w.ctx();
    let r = guarded(&ctx, || {
        let db = abyssiniandb::open_file(&ctx.dir).map_err(|e| Failure::new("error", None, format!("open_file: {e}")))?;
        macro_rules! body {
            ($map:expr, $KT:ty) => {{
                let mut m = $map;
                for (i, k) in keys.iter().enumerate() {
                    let v = format!("v{i}").into_bytes();
                    m.put(k.as_slice(), &v).map_err(|e| Failure::new("error", None, format!("put: {e}")))?;
                }
                if m.len().map_err(|e| Failure::new("error", None, format!("len: {e}")))? != keys.len() as u64 {
                    bail!("{} distinct byte keys but len() = {:?}", keys.len(), m.len());
                }
                for (i, k) in keys.iter().enumerate() {
                    let exp = Some(format!("v{i}").into_bytes());
                    // all From forms of the same bytes
                    let a = m.get(k.as_slice()).map_err(|e| Failure::new("error", None, format!("get: {e}")))?;
                    let kk: $KT = <$KT>::from(k.clone());
                    let b = m.get(&kk).map_err(|e| Failure::new("error", None, format!("get: {e}")))?;
                    if a != exp || b != exp {
                        bail!("key {:?}: get via &[u8] = {:?}, via Vec<u8> = {:?}, expected {:?}", k, a, b, exp);
                    }
                    if <$KT>::from(k.as_slice()) != kk || <$KT>::from_bytes(k) != kk {
                        bail!("key {:?}: From<&[u8]> / from_bytes differ from From<Vec<u8>>", k);
                    }
                    if let Ok(s) = std::str::from_utf8(k) {
                        let c = m.get(s).map_err(|e| Failure::new("error", None, format!("get: {e}")))?;
                        let st = s.to_string();
                        let d = m.get(&st).map_err(|e| Failure::new("error", None, format!("get: {e}")))?;
                        if c != exp || d != exp || <$KT>::from(st.clone()) != kk || <$KT>::from(s) != kk {
                            bail!("key {:?}: &str / String forms address another entry", k);
                        }
                    }
                    if k.len() == 3 {
                        let arr: [u8; 3] = [k[0], k[1], k[2]];
                        if <$KT>::from(&arr) != kk {
                            bail!("key {:?}: From<&[u8;N]> differs", k);
                        }
                    }
                    // equality <=> same bytes
                    for k2 in keys.iter() {
                        let kk2: $KT = <$KT>::from(k2.clone());
                        if (kk == kk2) != (k == k2) || (kk.cmp_u8(k2) == Ordering::Equal) != (k == k2) {
                            bail!("keys {:?} and {:?}: equality / cmp_u8 disagree with byte equality", k, k2);
                        }
                    }
                }
                // iteration returns exactly the bytes that were put
                let mut got: Vec<Vec<u8>> = abyssiniandb::DbMap::keys(&m).map(|k| k.as_bytes().to_vec()).collect();
                got.sort();
                let mut exp: Vec<Vec<u8>> = keys.to_vec();
                exp.sort();
                if got != exp {
                    bail!("keys() returned different byte strings than were put");
                }
            }};
        }
        // table size by the family: one bucket (a single chain), three, or sixteen
        let nb = [16u64, 1, 3, 16][keys.len() % 4];
        match kt {
            Kt::Bytes => body!(db.db_map_bytes_with_params("t", crate::dbx::to_params(&Params::plain(Buckets::BucketsSize(nb)))).map_err(|e| Failure::new("error", None, format!("open: {e}")))?, DbBytes),
            _ => body!(db.db_map_string_with_params("t", crate::dbx::to_params(&Params::plain(Buckets::BucketsSize(nb)))).map_err(|e| Failure::new("error", None, format!("open: {e}")))?, DbString),
        }
        Ok(Report::default())
    });
    w.cleanup(&ctx.dir);
    r?;
    rep.bump("byte_key_families");
    if keys.iter().any(|k| std::str::from_utf8(k).is_err()) {
        rep.bump("non_utf8_key");
    }
    Ok(())
}

fn check_many(kt: Kt, n: u32, seed: u32, w: &WCtx, rep: &mut Report) -> Result<(), Failure> {
    let ctx = w.ctx();
    let r = guarded(&ctx, || {
        let db = abyssiniandb::open_file(&ctx.dir).map_err(|e| Failure::new("error", None, format!("open_file: {e}")))?;
        let mut m = open_map(&db, "t", kt, &Params::plain(Buckets::BucketsSize(4096)))
            .map_err(|e| Failure::new("error", None, format!("open map: {e}")))?;
        // distinct keys: a counter in base 251 (digits 1..=251, no trailing ambiguity), padded with
        // seed-dependent non-zero bytes to a length of 1..=16
        let mut keys: std::collections::BTreeSet<Vec<u8>> = std::collections::BTreeSet::new();
        let mut x = seed as u64 | 1;
        for i in 0..n {
            crate::exec::tick();
            let mut k = Vec::new();
            let mut c = i;
            loop {
                k.push((c % 251) as u8 + 1);
                c /= 251;
                if c == 0 {
                    break;
                }
            }
            k.push(0xFF);
            x ^= x << 13;
            x ^= x >> 7;
            x ^= x << 17;
            let want = 1 + (x % 16) as usize;
            while k.len() < want {
                k.push(1 + ((x >> (8 * (k.len() % 8))) % 250) as u8);
            }
            if kt == Kt::String {
                for b in k.iter_mut() {
                    *b = b'!' + (*b % 90);
                }
                // keep the keys distinct after the mapping to text
                let tag = format!("{i:x}");
                k.truncate(16usize.saturating_sub(tag.len() + 1));
                k.push(b'~');
                k.extend_from_slice(tag.as_bytes());
            }
            let v = [(i % 251) as u8];
            m.put(&k, &v).map_err(|e| Failure::new("error", None, format!("put: {e}")))?;
            keys.insert(k);
        }
        for f in [2u8, 0, 4] {
            let out = m.iterate(f, None, 0);
            let got: std::collections::BTreeSet<Vec<u8>> = out.items.iter().filter_map(|(k, _)| k.clone()).collect();
            if out.items.len() != keys.len() || got != keys {
                let bad = got.difference(&keys).next().cloned();
                bail!(
                    "{} map with {} short keys: {} returns {} keys, {} of them distinct; a key that was never put: {:?}",
                    kt.name(),
                    keys.len(),
                    ITER_FLAVOURS[f as usize],
                    out.items.len(),
                    got.len(),
                    bad
                );
            }
        }
        Ok(Report::default())
    });
    w.cleanup(&ctx.dir);
    r?;
    rep.bump("many_short_keys");
    Ok(())
}

fn run_c10(c: &C10Case, w: &WCtx) -> Result<Report, Failure> {
    let mut rep = Report::default();
    let ctx0 = Ctx {
        dir: w.scratch.clone(),
        exe: None,
        cur_op: std::cell::Cell::new(0),
    };
    match c {
        C10Case::Ints(ps) => {
            let r = guarded(&ctx0, || {
                let mut r = Report::default();
                check_ints(ps, &mut r)?;
                Ok(r)
            })?;
            rep = r;
        }
        C10Case::Map { kt, buckets, xs, ys } => check_map(*kt, *buckets, xs, ys, w, &mut rep)?,
        C10Case::Bytes { kt, keys } => check_bytes(*kt, keys, w, &mut rep)?,
        C10Case::ManyKeys { kt, n, seed } => check_many(*kt, *n, *seed, w, &mut rep)?,
        C10Case::Hist(h) => {
            let r = run_history(h, w)?;
            rep.bump("typed_sessions");
            if r.has("delete_present") && r.has("overwrite") && r.has("insert") {
                rep.bump("typed_session_with_delete_overwrite_reinsert");
            }
        }
    }
    Ok(rep)
}

use crate::exec::Ctx;

impl Prop for C10 {
    fn id(&self) -> &'static str {
        "C10"
    }
    fn rule(&self) -> String {
        "integer pairs (x, y): x from {2^k, 2^k +- 1, -2^k, 2^(7j) +- 1 (vu64 steps), i64::MIN/MAX, u64::MAX, random, small}, y from {x, x+-1, x ^ bit, x ^ high bit, byteswap(x), low 32 bits of x, independent}; laws for DbU64, DbI64, DbVu64: int -> key -> int round trip (by value and by reference), From<T> == From<&T>, key(x) == key(y) <=> x == y, cmp_u8 == Equal <=> x == y, x == y => equal hash_value, vu64 keys equal the documented encoding (independent encoder); typed maps (tables 1..4096): put(x) then get(y) hits <=> x == y, keys of iter() convert back to exactly the inserted integers; byte/string keys: families of prefixes, embedded NULs, non-UTF-8: every From form of the same bytes addresses the same entry, different bytes never, keys() returns the bytes put (insertion order rotated, tables of 1 / 3 / 16 buckets); every 100th case 9000-20000 distinct keys of 1-16 bytes in mixed lengths (the key file passes several 128 KiB chunk boundaries with records at every alignment): keys(), iter() and into_iter() return exactly the keys put; every 5th case a whole session (5-200 calls: put, overwrite, delete, re-put, get, traversal, reopen) on a typed map with 2-14 keys in a table of 1-3 buckets, mostly the integer key types, special byte keys (empty, NULs, prefixes, equal-hash families) otherwise, results vs the model and independent decode at close. evaluations counts integer pairs + maps + key families. Non-trivial and distinct: a pair whose members differ only above bit 27, or a pair at a vu64 width boundary (digest of the pair); a typed map with a key above bit 27; a key family with a non-UTF-8 key; a session with insert, overwrite and delete of present keys."
            .to_string()
    }
    fn n_cases(&self, tier: Tier) -> u64 {
        tier.pick(6000, 40000)
    }
    fn run_case(&self, tier: Tier, seed: u64, index: u64, w: &WCtx) -> CaseOut {
        let st = strategy(tier, index);
        let mut out = run_generated(
            index,
            &st,
            case_seed(seed, "C10", index),
            500,
            w,
            |c: &C10Case| run_c10(c, w),
            |c, rep| {
                (
                    rep.has("map_with_key_above_bit27") || rep.has("non_utf8_key") || rep.has("typed_session_with_delete_overwrite_reinsert") || rep.has("many_short_keys"),
                    digest_of(c),
                )
            },
        );
        if out.failure.is_none() {
            // count pairs individually
            if let C10Case::Ints(ps) = draw(&st, case_seed(seed, "C10", index)) {
                out.evals = ps.len() as u64;
                for (x, y) in ps {
                    let hi = x != y && (x ^ y) >> 28 != 0 && (x ^ y) & 0x0FFF_FFFF == 0;
                    let wb = vu64_width(x) != vu64_width(x.wrapping_add(1)) || vu64_width(x) != vu64_width(x.wrapping_sub(1));
                    if hi || wb {
                        out.nontrivial.push(digest_of(&(x, y)));
                    }
                }
                if index < 2 {
                    out.sample = Some(json!({"Ints (first 12 of the case)": draw(&st, case_seed(seed, "C10", index))}));
                    if let Some(Value::Object(o)) = out.sample.as_mut() {
                        for (_, v) in o.iter_mut() {
                            if let Some(a) = v.get_mut("Ints").and_then(|a| a.as_array_mut()) {
                                a.truncate(12);
                            }
                        }
                    }
                }
            }
        }
        out
    }
    fn gen_case(&self, tier: Tier, seed: u64, index: u64) -> Value {
        serde_json::to_value(draw(&strategy(tier, index), case_seed(seed, "C10", index))).unwrap_or(json!(null))
    }
    fn replay(&self, case: &Value, w: &WCtx) -> Result<Report, Failure> {
        let c: C10Case = serde_json::from_value(case.clone())
            .map_err(|e| Failure::new("infra", None, format!("bad replay file: {e}")))?;
        run_c10(&c, w)
    }
}
