//! Properties decided by engine E1 with different generator configurations and observers:
//! C02, C04, C05, C06, C14, C17.
use super::*;
use crate::gen::*;
use proptest::prelude::*;

// ------------------------------------------------------------------------------------ C05

fn c05_cfg(tier: Tier, index: u64) -> HistCfg {
    let mut w = Weights::basic();
    w.flush = 3;
    w.sync = 3;
    w.reopen = 2;
    w.bulk = 2;
    let mut c = HistCfg {
        kts: Kt::ALL.to_vec(),
        key: if index % 11 == 0 { KeyProfile::Long } else { KeyProfile::Medium },
        n_keys: if index % 4 == 0 { 20..=200 } else { 2..=40 },
        bufs: BufProfile::Any,
        allow_lt8: true,
        max_buckets: 4096,
        ops: OpsCfg {
            w,
            val: if index % 13 == 0 { ValProfile::Big } else { ValProfile::Mixed },
            n_ops: tier.pick(0..=250, 0..=600),
            reopen_params: Some((BufProfile::Any, true, 4096)),
            reopen_child: false,
            max_batch: 12,
            n_maps: 1,
        },
        obs: Obs {
            decode_at_close: true,
            decode_at_sync: true,
            decode_every_op: index % 5 == 0,
            ..Default::default()
        },
        target_pct: 30,
        prelude: Prelude::None,
        phases: false,
        special_keys: false,
        default_table: false,
        big_table: None,
        empty_mid: false,
        empty_end: false,
    };
    if index % 50 == 13 {
        make_dense(&mut c, tier == Tier::Thorough);
    } else {
        rare_regions(&mut c, index);
    }
    c
}

pub fn c05() -> HistProp {
    HistProp {
        id: "C05",
        level: "exploration",
        rule: "seeded random histories (all key types, tables 1..4096 buckets, all buffer settings incl. eviction-forcing fixed sizes, 30% bucket-targeted keys so that chains form); the three files are read and decoded by the independent decoder at every close, after every successful flush/sync, and after every call in 20% of the cases. Oracle: the structural predicate of the statement (acyclic chains, key hashes to its bucket, no duplicate key, count == reachable, non-empty bucket => bit set, value offset in bounds / parseable / unshared, record fits its slot, header signatures) and decoded contents == model. evaluations counts histories, label decoded_states counts decoded images. Non-trivial: some decoded state has a chain of length >= 3 together with a non-empty free list; distinct by case digest.",
        assumptions: &["the decoder was written from the layout documentation only and shares no code with the crate, rabuf or vu64"],
        cfg: c05_cfg,
        n: |t| t.pick(12000, 60000),
        nontrivial: |_h, r| r.has("state_chain3_and_free"),
        timeout: |t| t.pick(120, 300),
        shrink_iters: 1500,
    }
}

// ------------------------------------------------------------------------------------ C06

fn c06_cfg(tier: Tier, index: u64) -> HistCfg {
    let mut w = Weights::basic();
    w.put = 45;
    w.del = 25;
    w.get = 4;
    w.inc = 0;
    w.len = 1;
    w.is_empty = 0;
    w.stats = 2;
    w.reopen = 1;
    let mut c = HistCfg {
        kts: vec![Kt::Bytes, Kt::String, Kt::U64, Kt::Vu64],
        key: if index % 3 == 0 { KeyProfile::Medium } else { KeyProfile::Short },
        n_keys: if index % 4 == 1 { 10..=120 } else { 1..=12 },
        bufs: BufProfile::Plain,
        allow_lt8: true,
        max_buckets: 256,
        ops: OpsCfg {
            w,
            val: if index % 3 == 2 { ValProfile::Mixed } else { ValProfile::LargeList },
            n_ops: tier.pick(0..=150, 0..=400),
            reopen_params: None,
            reopen_child: false,
            max_batch: 0,
            n_maps: 1,
        },
        obs: Obs {
            decode_every_op: true,
            tiling: true,
            ..Default::default()
        },
        target_pct: 20,
        prelude: Prelude::None,
        phases: false,
        special_keys: false,
        default_table: false,
        big_table: None,
        empty_mid: false,
        empty_end: false,
    };
    // files beyond 2 MiB, phased workloads, keys with particular byte patterns
    rare_regions(&mut c, index);
    if c.prelude != Prelude::None {
        // decoding multi-megabyte files after every call: keep these histories short
        c.ops.n_ops = 0..=30;
    }
    if index % 1500 == 713 {
        // a single chain of thousands of links with relocations inside it; decoded at close only
        make_very_dense(&mut c);
        c.obs = Obs {
            decode_at_close: true,
            tiling: true,
            ..Default::default()
        };
        c.ops.val = ValProfile::Mixed;
    }
    c
}

const C06_RULE: &str = "seeded random update histories on small maps with flush + independent decode after EVERY call (sizes biased to the shared large free list 1024..20000 and to class edges), plus cyclic workloads (a generated cycle of 5-40 calls repeated 20-120 times). Oracle per decoded state: slots tile [192, EOF) of the key and value file, every slot is live exactly once or on exactly one free list of its class, legal sizes; per call: a file is extended by a slot of size k only if no free slot acceptable for k (same exact class / large-list entry >= k) was free both before and after the call; per exact slot class s (16..896): slots(s) <= peak simultaneously live(s) + max(1, most allocations observed in one call); statistics calls are issued in the histories and must return (watchdog). evaluations counts histories, decoded_states counts images. Non-trivial: a free slot was reused (label free_slot_reused / large_slot_reused); distinct by case digest.";

pub fn c06() -> HistProp {
    HistProp {
        id: "C06",
        level: "exploration",
        rule: C06_RULE,
        assumptions: &[
            "the slot bound uses call-boundary observations: the transient term is the largest number of allocations seen in a single call (relocation cascades allocate several slots inside one call)",
        ],
        cfg: c06_cfg,
        n: |t| t.pick(10000, 50000),
        nontrivial: |_h, r| r.has("free_slot_reused"),
        timeout: |t| t.pick(120, 300),
        shrink_iters: 1500,
    }
}

/// C06 with cyclic workloads as extra cases
pub struct C06;

fn c06_cycle_strategy(tier: Tier, index: u64) -> BoxedStrategy<History> {
    let mut cfg = c06_cfg(tier, index);
    cfg.ops.n_ops = 5..=40;
    cfg.ops.w.reopen = 0;
    // the cycle is repeated as a whole: no bulk prelude, no phases
    cfg.prelude = Prelude::None;
    cfg.phases = false;
    let reps = tier.pick(20u32..=120, 50..=200);
    (history_strategy(cfg), reps)
        .prop_map(|(mut h, r)| {
            let cycle = h.ops.clone();
            let mut ops = Vec::with_capacity(cycle.len() * r as usize);
            for _ in 0..r {
                ops.extend(cycle.iter().cloned());
            }
            h.ops = ops;
            h
        })
        .boxed()
}

fn c06_n_cycles(tier: Tier) -> u64 {
    tier.pick(1000, 10000)
}

impl Prop for C06 {
    fn id(&self) -> &'static str {
        "C06"
    }
    fn rule(&self) -> String {
        C06_RULE.to_string()
    }
    fn assumptions(&self) -> Vec<String> {
        c06().assumptions()
    }
    fn n_cases(&self, tier: Tier) -> u64 {
        c06().n_cases(tier) + c06_n_cycles(tier)
    }
    fn timeout_s(&self, tier: Tier) -> u64 {
        tier.pick(60, 120)
    }
    fn run_case(&self, tier: Tier, seed: u64, index: u64, w: &WCtx) -> CaseOut {
        let nh = c06().n_cases(tier);
        if index < nh {
            return c06().run_case(tier, seed, index, w);
        }
        let st = c06_cycle_strategy(tier, index);
        let mut out = run_generated(
            index,
            &st,
            case_seed(seed, "C06", index),
            300,
            w,
            |h: &History| run_history(h, w),
            |h, rep| (rep.has("free_slot_reused"), digest_of(h)),
        );
        out.labels.insert("cyclic_workload".into(), 1);
        out.sample = None; // cyclic histories are long; the sample list shows plain ones
        out
    }
    fn gen_case(&self, tier: Tier, seed: u64, index: u64) -> Value {
        let nh = c06().n_cases(tier);
        if index < nh {
            return c06().gen_case(tier, seed, index);
        }
        let st = c06_cycle_strategy(tier, index);
        serde_json::to_value(draw(&st, case_seed(seed, "C06", index))).unwrap_or(json!(null))
    }
    fn replay(&self, case: &Value, w: &WCtx) -> Result<Report, Failure> {
        c06().replay(case, w)
    }
    fn reductions(&self, case: &Value) -> Vec<Value> {
        history_reductions(case)
    }
}

// ------------------------------------------------------------------------------------ C17

fn c17_cfg(tier: Tier, index: u64) -> HistCfg {
    let mut c = c06_cfg(tier, index);
    c.kts = Kt::ALL.to_vec();
    c.ops.val = if index % 2 == 0 { ValProfile::Mixed } else { ValProfile::LargeList };
    c.ops.w.stats = 0;
    c.max_buckets = 1024;
    c.obs = Obs {
        decode_every_op: true,
        stats: true,
        ..Default::default()
    };
    c.n_keys = if index % 4 == 1 { 10..=120 } else { 1..=16 };
    if index % 9 == 0 {
        c.key = KeyProfile::Long;
    }
    if index % 500 == 101 {
        // bitmap larger than one 128 KiB buffer chunk
        c.max_buckets = 4 * 1024 * 1024;
        c.big_table = Some(2 * 1024 * 1024);
        c.ops.n_ops = 0..=12;
        c.prelude = Prelude::None;
    } else if index % 2500 == 301 {
        c.default_table = true;
        c.ops.n_ops = 0..=6;
        c.prelude = Prelude::None;
    }
    c
}

pub fn c17() -> HistProp {
    HistProp {
        id: "C17",
        level: "exploration",
        rule: "seeded random update histories (own run of the C05/C06 generators); after EVERY call the map is flushed, the files are decoded by the independent decoder and every CheckFileDbMap figure is recomputed from the decoded structure: count_of_free_{key,value}_piece == free-list lengths per class, {key,value}_piece_size_stats and {key,value}_length_stats (parsed from Display) == histograms over live records with non-zero length, htx_filling_rate_per_mill == (non-empty buckets, *1000/n); all calls must return (watchdog). evaluations counts histories, stats_compared counts compared states. Non-trivial: a compared state has >= 2 non-empty free lists and a live zero-length value; distinct by case digest.",
        assumptions: &["figures are compared through the public Display form of the statistics types"],
        cfg: c17_cfg,
        n: |t| t.pick(10000, 50000),
        nontrivial: |_h, r| r.has("stats_nontrivial"),
        timeout: |t| t.pick(120, 300),
        shrink_iters: 1500,
    }
}

// ------------------------------------------------------------------------------------ C02

fn c02_cfg(tier: Tier, index: u64) -> HistCfg {
    let mut w = Weights::basic();
    w.reopen = [3u32, 6, 10][(index % 3) as usize];
    w.handles = 4;
    w.iter = 2;
    w.flush = 1;
    let mut c = HistCfg {
        kts: Kt::ALL.to_vec(),
        key: KeyProfile::Medium,
        n_keys: 1..=60,
        bufs: BufProfile::Any,
        allow_lt8: true,
        max_buckets: 65536,
        ops: OpsCfg {
            w,
            val: if index % 17 == 0 { ValProfile::Big } else { ValProfile::Mixed },
            n_ops: tier.pick(0..=250, 0..=600),
            reopen_params: Some((BufProfile::Any, true, 65536)),
            reopen_child: true,
            max_batch: 0,
            n_maps: 1,
        },
        obs: Obs::default(),
        target_pct: 10,
        prelude: Prelude::None,
        phases: false,
        special_keys: false,
        default_table: false,
        big_table: None,
        empty_mid: false,
        empty_end: false,
    };
    rare_regions(&mut c, index);
    c
}

pub fn c02() -> HistProp {
    HistProp {
        id: "C02",
        level: "exploration",
        rule: "seeded random histories with a close/reopen every ~10-50 calls; at each one every handle (map clones, re-acquired handles, db clones, a half-consumed iterator) is dropped in one of four generated orders and the directory is reopened with freshly drawn parameters (table size / buffers, same or different); about half of the reopens are first verified by a freshly spawned process (vp verify-dir) whose digest of len, get of every pool key and the full iteration must equal the model's. After every reopen: get of every pool key incl. absent ones, len, full iteration vs the model. Non-trivial: a reopen after >= 1 delete and >= 1 overwrite with parameters different from creation; distinct by case digest.",
        assumptions: &["a clean close is the drop of the last Rc; the child process is the same binary built from the same tree"],
        cfg: c02_cfg,
        n: |t| t.pick(8000, 40000),
        nontrivial: |_h, r| r.has("reopen_after_delete_and_overwrite") && r.has("reopen_other_params"),
        timeout: |t| t.pick(90, 180),
        shrink_iters: 1000,
    }
}

// ------------------------------------------------------------------------------------ C04

fn c04_cfg(tier: Tier, index: u64) -> HistCfg {
    let mut w = Weights::basic();
    w.put = 40;
    w.del = 30;
    w.get = 2;
    w.inc = 0;
    w.iter = 12;
    w.reopen = 1;
    let emptied = index % 6 == 0;
    let mut c = HistCfg {
        kts: if index % 3 == 0 { Kt::ALL.to_vec() } else { vec![Kt::Bytes, Kt::String] },
        key: KeyProfile::Short,
        n_keys: if emptied { 1..=6 } else if index % 4 == 0 { 30..=300 } else { 1..=40 },
        bufs: BufProfile::Plain,
        allow_lt8: true,
        max_buckets: 65536,
        ops: OpsCfg {
            w,
            val: ValProfile::Small,
            n_ops: tier.pick(0..=200, 0..=500),
            reopen_params: None,
            reopen_child: false,
            max_batch: 0,
            n_maps: 1,
        },
        obs: Obs::default(),
        target_pct: 50,
        prelude: Prelude::None,
        phases: false,
        special_keys: false,
        default_table: false,
        big_table: None,
        empty_mid: false,
        empty_end: false,
    };
    c.empty_mid = index % 7 == 3;
    c.empty_end = index % 31 == 5;
    if index % 1200 == 213 {
        make_very_dense(&mut c);
        c.ops.w.iter = 1;
    } else if index % 300 == 77 {
        // occupancy bitmap larger than one 128 KiB buffer chunk; keys aimed at the chunk edges
        c.kts = vec![Kt::Bytes, Kt::String];
        c.big_table = Some(if index % 600 == 77 { 1 << 20 } else { 1 << 21 });
        c.target_pct = 100;
        c.n_keys = 1..=30;
        c.ops.n_ops = 1..=60;
    } else if index % 3000 == 1501 {
        c.kts = vec![Kt::Bytes, Kt::String];
        c.default_table = true;
        c.target_pct = 100;
        c.n_keys = 1..=20;
        c.ops.n_ops = 1..=30;
    } else if index % 40 == 13 {
        make_dense(&mut c, tier == Tier::Thorough);
        c.ops.w.iter = 3;
    } else {
        c.phases = index % 10 == 4;
        c.special_keys = index % 8 == 3;
    }
    c
}

pub fn c04() -> HistProp {
    HistProp {
        id: "C04",
        level: "exploration",
        rule: "map states produced by seeded random insert/overwrite/delete histories (incl. maps emptied again) on tables of 1..65536 buckets (BucketsSize and Capacity); half of the cases place keys, via the re-implemented placement hash, into buckets at the edges of the bitmap scan (0,7,8,63,64,n-72..n-1, in particular n-9 and n-8) or all into one bucket; traversals with all seven flavours (iter, iter_mut, keys, values, into_iter, &map, &mut map), complete and partial, interleaved with the updates. Oracle: multiset of yielded pairs == model, count == len(), size_hint == (remaining, Some(remaining)) before every step, three more next() after the end return None. evaluations counts histories; labels iter_* count traversals. Non-trivial: a full traversal on a table != 8 buckets after at least one delete of a present key; distinct by case digest.",
        assumptions: &["the map is not modified during a traversal (the interpreter finishes or drops the iterator before the next update)"],
        cfg: c04_cfg,
        n: |t| t.pick(12000, 60000),
        nontrivial: |h, r| {
            r.has("iter_full") && r.has("delete_present") && h.maps[0].params.buckets.bucket_count() != 8
        },
        timeout: |t| t.pick(120, 300),
        shrink_iters: 1500,
    }
}

// ------------------------------------------------------------------------------------ C14

fn c14_cfg(tier: Tier, index: u64) -> HistCfg {
    let mut w = Weights::basic();
    w.put = 10;
    w.del = 5;
    w.get = 5;
    w.bulk = 40;
    w.strs = 10;
    w.reopen = 1;
    let mut c = HistCfg {
        kts: Kt::ALL.to_vec(),
        key: KeyProfile::Medium,
        n_keys: if index % 3 == 0 { 40..=250 } else { 3..=40 },
        bufs: BufProfile::Plain,
        allow_lt8: true,
        max_buckets: 4096,
        ops: OpsCfg {
            w,
            val: if index % 3 == 0 { ValProfile::Small } else if index % 10 == 1 { ValProfile::Big } else { ValProfile::Mixed },
            n_ops: tier.pick(0..=60, 0..=150),
            reopen_params: None,
            reopen_child: false,
            max_batch: if index % 3 == 0 { 200 } else { 24 },
            n_maps: 1,
        },
        obs: Obs::default(),
        target_pct: 10,
        prelude: Prelude::None,
        phases: false,
        special_keys: false,
        default_table: false,
        big_table: None,
        empty_mid: false,
        empty_end: false,
    };
    c.special_keys = index % 8 == 3;
    let _ = tier;
    c
}

pub fn c14() -> HistProp {
    HistProp {
        id: "C14",
        level: "exploration",
        rule: "seeded random histories on all key types in which 40% of the calls are batches of 0..200 keys (rarely 4000-9000 pairs) in arbitrary order, present and absent, with repeats where the statement allows them (bulk_get/bulk_get_string: any; bulk_delete, bulk_put, bulk_put_string: repeated keys removed by the interpreter; put_from_iter: any, order matters; also put_from_iter fed by a live traversal of the same map through a second handle, rewriting every value in place with a value of the same length); values are raw byte patterns (mostly invalid UTF-8) and, for the *_string writers, text of 1-4 byte characters with stray invalid bytes, up to beyond 8 MiB in every 10th case. Oracle: position-wise equality with the model's element-wise results, full comparison of the map with the model after every writing batch, string forms == byte forms composed with from_utf8_lossy. Non-trivial: the history has an unsorted batch of >= 3 keys mixing present and absent keys; distinct by case digest.",
        assumptions: &[],
        cfg: c14_cfg,
        n: |t| t.pick(12000, 60000),
        nontrivial: |_h, r| r.has("batch_unsorted_mixed"),
        timeout: |t| t.pick(120, 300),
        shrink_iters: 1500,
    }
}
