//! C11 — named maps are isolated; handles to the same map alias one state.
use super::*;
use crate::gen::*;
use proptest::prelude::*;

pub struct C11;

const NAMES: [&str; 16] = ["a", "a.key", "a.val", "A", "m1", "m10", "b", "a.htx", "a b", "日本", "a..x", "-", "m1.key.val", "a.key.htx", "ma", "x"];

/// many maps of one key type in one directory (tables of open maps, file descriptors, ...)
fn many_maps_strategy(tier: Tier, _index: u64) -> BoxedStrategy<History> {
    let n = tier.pick(66usize..=110, 66..=300);
    (
        proptest::sample::select(Kt::ALL.to_vec()),
        n,
        proptest::collection::vec(any::<bool>(), 300),
        any::<bool>(),
    )
        .prop_flat_map(move |(kt, n, lates, clone_first)| {
            let mut w = Weights::basic();
            w.handles = 45;
            w.put = 30;
            w.get = 15;
            w.del = 5;
            w.dbsync = 2;
            w.sync = 2;
            let cfg = OpsCfg {
                w,
                val: ValProfile::Small,
                n_ops: tier.pick(100..=500, 100..=1500),
                reopen_params: None,
                reopen_child: false,
                max_batch: 0,
                n_maps: n,
            };
            let p0 = Params::plain(Buckets::BucketsSize(8));
            (
                Just((kt, n, lates, clone_first)),
                keys_strategy(kt, KeyProfile::Short, 2..=4),
                ops_strategy(&cfg, 4, p0),
            )
        })
        .prop_map(|((kt, n, lates, clone_first), keys, ops)| {
            let p0 = Params::plain(Buckets::BucketsSize(8));
            let maps: Vec<MapSpec> = (0..n)
                .map(|i| MapSpec {
                    name: format!("t{i:03}"),
                    kt,
                    params: p0,
                    keys: keys.clone(),
                    late: i > 0 && lates[i % lates.len()],
                })
                .collect();
            let mut ops = ops;
            if clone_first {
                ops.insert(0, Op::CloneDb);
            }
            // first touch every map once (so that all of them are open), in a generated order
            let mut pre: Vec<Op> = Vec::new();
            for i in 0..n {
                pre.push(Op::Use { m: i as u16 });
                pre.push(Op::Put { k: (i % 3) as u32, v: Val::P { len: 3, seed: i as u32 } });
                if i == n / 2 || i == n / 3 {
                    // the maps opened so far become clean (synced, not written since)
                    pre.push(Op::DbSyncAll);
                }
            }
            pre.extend(ops);
            History {
                maps,
                ops: pre,
                obs: Obs::default(),
                excluded: 0,
                quiet_prefix: 0,
            }
        })
        .boxed()
}

fn strategy(tier: Tier, index: u64) -> BoxedStrategy<History> {
    if index % 25 == 7 {
        return many_maps_strategy(tier, index);
    }
    let nmaps = 2usize..=5;
    let spec = (
        proptest::sample::select(Kt::ALL.to_vec()),
        params_strategy(
            if index % 3 == 0 { BufProfile::Any } else { BufProfile::Plain },
            true,
            1024,
        ),
    );
    let names = proptest::sample::subsequence(NAMES.to_vec(), 5).prop_shuffle();
    // which maps are opened late (first use instead of at the start), and whether the history
    // starts by cloning the database handle
    let lates = (proptest::collection::vec(any::<bool>(), 5), any::<bool>());
    (proptest::collection::vec(spec, nmaps), names, lates)
        .prop_flat_map(move |(specs, names, lates)| {
            let n = specs.len();
            let keysets: Vec<BoxedStrategy<Vec<Key>>> = specs
                .iter()
                .map(|(kt, _)| keys_strategy(*kt, KeyProfile::Medium, 2..=20))
                .collect();
            let mut w = Weights::basic();
            w.handles = 25;
            w.flush = 1;
            w.sync = 1;
            w.dbsync = 1;
            w.iter = 2;
            // batches, incl. put_from_iter fed by a traversal of the same map through another handle
            w.bulk = 3;
            w.reopen = if index % 4 == 0 { 1 } else { 0 };
            let cfg = OpsCfg {
                w,
                val: ValProfile::Mixed,
                n_ops: tier.pick(0..=200, 0..=500),
                reopen_params: None,
                reopen_child: true,
                max_batch: 6,
                n_maps: n,
            };
            let p0 = specs[0].1;
            (Just(specs), Just(names), Just(lates), keysets, ops_strategy(&cfg, 20, p0))
        })
        .prop_map(|(specs, names, lates, keysets, ops)| {
            let mut maps = Vec::new();
            let mut ex = 0;
            for (i, ((kt, params), keys)) in specs.into_iter().zip(keysets.into_iter()).enumerate() {
                let (kb, vb) = size_bounds(&keys, &ops);
                let (p, e) = sanitize_params(params, kb, vb);
                ex += e;
                maps.push(MapSpec {
                    name: names[i].to_string(),
                    kt,
                    params: p,
                    keys,
                    // the first map is always there from the start
                    late: i > 0 && lates.0[i % 5],
                });
            }
            // reopen uses the (sanitised) parameters of the first map with a small table
            let rp = maps[0].params;
            let mut ops: Vec<Op> = ops;
            if lates.1 {
                ops.insert(0, Op::CloneDb);
            }
            let ops = ops
                .into_iter()
                .map(|op| match op {
                    Op::Reopen { child, order, .. } => Op::Reopen {
                        params: Params {
                            val: BufP::Auto,
                            key: BufP::PerMille(1000),
                            htx: BufP::PerMille(1000),
                            buckets: rp.buckets,
                        },
                        child,
                        order,
                    },
                    o => o,
                })
                .collect();
            History {
                maps,
                ops,
                obs: Obs {
                    isolation: true,
                    ..Default::default()
                },
                excluded: ex,
                quiet_prefix: 0,
            }
        })
        .boxed()
}

fn nontrivial(h: &History, r: &Report) -> bool {
    let kts: std::collections::BTreeSet<Kt> = h.maps.iter().map(|m| m.kt).collect();
    h.maps.len() >= 3 && kts.len() >= 2 && r.has("handle_switch")
}

impl Prop for C11 {
    fn id(&self) -> &'static str {
        "C11"
    }
    fn rule(&self) -> String {
        "2-5 maps of mixed key types in one directory, names drawn from a pool with traps (a, a.key, a.val, a.htx, A, m1, m10, b, 'a b', non-ASCII, a..x, -, m1.key.val, a.key.htx, ma, x: names that are suffixes of other names); seeded random interleaved histories in which ~25% of the calls switch the current map / handle, clone a handle, drop one, re-acquire the map through the db object or through a clone of the db object (db_map_X(name), and db_map_X_with_params(name, other parameters) on the open map, whose parameters are ignored); small batches incl. put_from_iter fed by a live traversal of the same map through another handle; about 40% of the maps are opened late (at their first use, through the most recently cloned database handle, re-acquired later through the original one); every call goes through the currently selected handle and is compared with the model of that map (so an update through one handle must be seen through all others); around every update all other maps are flushed and the bytes of their three files must be unchanged; db-level sync and clean reopen (with child-process verification of all maps) are part of the alphabet. Non-trivial: >= 3 maps, >= 2 key types and a switch between >= 2 live handles of one map; distinct by case digest."
            .to_string()
    }
    fn n_cases(&self, tier: Tier) -> u64 {
        tier.pick(10000, 50000)
    }
    fn timeout_s(&self, tier: Tier) -> u64 {
        tier.pick(90, 180)
    }
    fn run_case(&self, tier: Tier, seed: u64, index: u64, w: &WCtx) -> CaseOut {
        let st = strategy(tier, index);
        let mut out = run_generated(
            index,
            &st,
            case_seed(seed, "C11", index),
            600,
            w,
            |h: &History| run_history(h, w),
            |h, rep| (nontrivial(h, rep), digest_of(h)),
        );
        out.excluded = out.labels.get("excluded_draws").copied().unwrap_or(0);
        out
    }
    fn gen_case(&self, tier: Tier, seed: u64, index: u64) -> Value {
        serde_json::to_value(draw(&strategy(tier, index), case_seed(seed, "C11", index))).unwrap_or(json!(null))
    }
    fn replay(&self, case: &Value, w: &WCtx) -> Result<Report, Failure> {
        let h: History = serde_json::from_value(case.clone())
            .map_err(|e| Failure::new("infra", None, format!("bad replay file: {e}")))?;
        run_history(&h, w)
    }
    fn reductions(&self, case: &Value) -> Vec<Value> {
        history_reductions(case)
    }
}
