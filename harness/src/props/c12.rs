//! C12 — files written by the released format stay readable (format and hash stability).
//!
//! Golden images under /verif/golden/<name>/ were written by a build of the PINNED commit
//! (tools/mkgolden.sh builds this harness without hooks against a worktree of 4b82afd and runs
//! `vp mkgolden`).  Each image directory holds m.htx, m.key, m.val, history.json, expected.json.
use super::*;
use crate::dbx::open_map;
use crate::decoder;
use crate::exec::read_files;
use crate::gen::*;
use proptest::prelude::*;
use serde::{Deserialize, Serialize};
use std::collections::BTreeMap;
use std::path::{Path, PathBuf};

pub struct C12;

#[derive(Serialize, Deserialize, Clone, Debug)]
pub struct Expected {
    pub kt: Kt,
    pub buckets: u64,
    /// hex key -> hex value
    pub contents: BTreeMap<String, String>,
    /// hex key -> bucket index (placement)
    pub placement: BTreeMap<String, u64>,
}

fn gkey(kt: Kt, i: u64) -> Key {
    match kt {
        Kt::Bytes => Key::P {
            len: 3 + (i % 29) as u32,
            seed: 500 + i as u32,
        },
        Kt::String => Key::S {
            len: 1 + (i % 40) as u32,
            seed: 700 + i as u32,
        },
        Kt::U64 => Key::B((i.wrapping_mul(0x9E3779B97F4A7C15) >> (i % 50)).to_le_bytes().to_vec()),
        Kt::I64 => Key::B(((i as i64 - 20).wrapping_mul(0x1234567)).to_le_bytes().to_vec()),
        Kt::Vu64 => Key::B(decoder::vu64_encode(i.wrapping_mul(0x9E3779B97F4A7C15) >> ((i * 3) % 60))),
    }
}

/// the three golden histories per key type. They avoid the paths on which the pinned release
/// is defective (no iteration, no key-record relocation, no reuse of a large free slot by a
/// smaller request, no flush) so that the pinned build writes a sound image.
pub fn golden_histories() -> Vec<(String, History)> {
    let mut out = Vec::new();
    for kt in Kt::ALL {
        let keys: Vec<Key> = dedup_keys((0..40).map(|i| gkey(kt, i)).collect());
        let nk = keys.len() as u32;
        // H1: inserts only, 8 buckets
        let mut ops = Vec::new();
        for i in 0..nk.min(24) {
            ops.push(Op::Put {
                k: i,
                v: Val::P {
                    len: [0u32, 1, 5, 14, 15, 22, 23, 30, 46, 62, 100, 126, 250, 300][i as usize % 14],
                    seed: i as u32,
                },
            });
        }
        out.push((
            format!("{}-inserts-t8", kt.name()),
            History {
                maps: vec![MapSpec {
                    name: "m".into(),
                    kt,
                    params: Params::plain(Buckets::Capacity(4)),
                    keys: keys.clone(),
                late: false,
            }],
                ops,
                obs: Obs::default(),
                excluded: 0,
                quiet_prefix: 0,
            },
        ));
        // H2: deletes, overwrites and re-inserts, non-empty free lists, 128 buckets
        let mut ops = Vec::new();
        for i in 0..nk {
            ops.push(Op::Put {
                k: i,
                v: Val::P {
                    len: [3u32, 14, 20, 40, 60, 90, 120, 200, 400][i as usize % 9],
                    seed: 100 + i as u32,
                },
            });
        }
        for i in (0..nk).step_by(3) {
            ops.push(Op::Del { k: i });
        }
        for i in (1..nk).step_by(4) {
            ops.push(Op::Put {
                k: i,
                v: Val::P {
                    len: [250u32, 2, 70, 500][i as usize % 4],
                    seed: 200 + i as u32,
                },
            });
        }
        for i in (0..nk).step_by(6) {
            ops.push(Op::Put {
                k: i,
                v: Val::P { len: 33, seed: 300 + i as u32 },
            });
        }
        for i in (2..nk).step_by(7) {
            ops.push(Op::Del { k: i });
        }
        out.push((
            format!("{}-deletes-t128", kt.name()),
            History {
                maps: vec![MapSpec {
                    name: "m".into(),
                    kt,
                    params: Params::plain(Buckets::BucketsSize(128)),
                    keys: keys.clone(),
                late: false,
            }],
                ops,
                obs: Obs::default(),
                excluded: 0,
                quiet_prefix: 0,
            },
        ));
        // H3: large slots, a large free slot left on the shared list, 1024 buckets
        let mut ops = Vec::new();
        for i in 0..10u32.min(nk) {
            ops.push(Op::Put {
                k: i,
                v: Val::P {
                    len: [1100u32, 1500, 2047, 2048, 3000, 4096, 4097, 5000, 1023, 1024][i as usize % 10],
                    seed: 400 + i as u32,
                },
            });
        }
        ops.push(Op::Del { k: 2 });
        ops.push(Op::Del { k: 5 });
        // exact-size reuse of the freed 2047-byte slot's class is avoided: new large values are bigger
        ops.push(Op::Put {
            k: 11 % nk,
            v: Val::P { len: 6000, seed: 411 },
        });
        ops.push(Op::Put {
            k: 12 % nk,
            v: Val::P { len: 10, seed: 412 },
        });
        out.push((
            format!("{}-large-t1024", kt.name()),
            History {
                maps: vec![MapSpec {
                    name: "m".into(),
                    kt,
                    params: Params::plain(Buckets::Capacity(900)),
                    keys,
                late: false,
            }],
                ops,
                obs: Obs::default(),
                excluded: 0,
                quiet_prefix: 0,
            },
        ));
    }
    // H4 (DbString only): keys that are not text -- DbString wraps arbitrary bytes (From<&[u8]>):
    // invalid UTF-8, multi-byte text, embedded NULs, the empty key; 8 buckets so that such keys sit
    // inside chains; overwrites that move values, deletes of chain neighbours
    {
        let mut keys: Vec<Key> = Vec::new();
        for i in 0..14u32 {
            keys.push(Key::P { len: 2 + i % 9, seed: 900 + i });
        }
        keys.push(Key::B(vec![0x61, 0xC3]));
        keys.push(Key::B(vec![0xFF, 0xFE, 0x6B, 0x80]));
        keys.push(Key::B("grüße-語-𝄞".as_bytes().to_vec()));
        keys.push(Key::B(b"nul\0inside".to_vec()));
        keys.push(Key::B(vec![]));
        for i in 0..8u32 {
            keys.push(Key::S { len: 3 + i, seed: 950 + i });
        }
        let keys = dedup_keys(keys);
        let nk = keys.len() as u32;
        let mut ops = Vec::new();
        for i in 0..nk {
            ops.push(Op::Put { k: i, v: Val::P { len: [4u32, 14, 15, 30, 100][i as usize % 5], seed: 600 + i } });
        }
        for i in (0..nk).step_by(4) {
            ops.push(Op::Put { k: i, v: Val::P { len: 200 + i, seed: 700 + i } });
        }
        for i in (1..nk).step_by(5) {
            ops.push(Op::Del { k: i });
        }
        out.push((
            "string-rawkeys-t8".to_string(),
            History {
                maps: vec![MapSpec {
                    name: "m".into(),
                    kt: Kt::String,
                    params: Params::plain(Buckets::Capacity(4)),
                    keys,
                    late: false,
                }],
                ops,
                obs: Obs::default(),
                excluded: 0,
                quiet_prefix: 0,
            },
        ));
    }
    // H5: long keys; deleted ones leave free pieces on the two largest key free lists (the
    // 896-byte class and the shared list of 1024 bytes and more), which stay there at close
    {
        let keys: Vec<Key> = (0..14u32).map(|i| Key::P { len: [780u32, 800, 870, 1000, 1500, 2000, 40][i as usize % 7] + i, seed: 1200 + i }).collect();
        let nk = keys.len() as u32;
        let mut ops = Vec::new();
        for i in 0..nk {
            ops.push(Op::Put { k: i, v: Val::P { len: 5 + i, seed: 1300 + i } });
        }
        for i in [1u32, 4, 8, 11] {
            ops.push(Op::Del { k: i });
        }
        out.push((
            "bytes-longkeys-t8".to_string(),
            History {
                maps: vec![MapSpec {
                    name: "m".into(),
                    kt: Kt::Bytes,
                    params: Params::plain(Buckets::Capacity(4)),
                    keys,
                    late: false,
                }],
                ops,
                obs: Obs::default(),
                excluded: 0,
                quiet_prefix: 0,
            },
        ));
    }
    out
}

/// `vp mkgolden <outdir>`: run the golden histories with THIS build and store the images
pub fn mkgolden(outdir: &Path) -> i32 {
    crate::runner::install_panic_hook();
    for (name, h) in golden_histories() {
        let dir = outdir.join(&name);
        let _ = std::fs::remove_dir_all(&dir);
        std::fs::create_dir_all(&dir).unwrap();
        let ctx = crate::exec::Ctx {
            dir: dir.clone(),
            exe: None,
            cur_op: std::cell::Cell::new(0),
        };
        let mut model = None;
        let r = guarded(&ctx, || {
            let mut e = Exec::new(&h, &ctx)?;
            e.run()?;
            model = Some(e.model(0).clone());
            Ok(e.rep.clone())
        });
        if let Err(f) = r {
            eprintln!("golden history {name} failed under this build: {:?}", f);
            return 1;
        }
        let model = model.unwrap();
        let kt = h.maps[0].kt;
        let n = h.maps[0].params.buckets.bucket_count();
        let exp = Expected {
            kt,
            buckets: n,
            contents: model.iter().map(|(k, v)| (hex(k), hex(v))).collect(),
            placement: model.keys().map(|k| (hex(k), decoder::bucket_of(k, n))).collect(),
        };
        std::fs::write(dir.join("expected.json"), serde_json::to_string_pretty(&exp).unwrap()).unwrap();
        std::fs::write(dir.join("history.json"), serde_json::to_string(&h).unwrap()).unwrap();
        eprintln!("golden image {name}: {} entries", exp.contents.len());
    }
    0
}

pub fn golden_dir(root: &Path) -> PathBuf {
    root.join("golden")
}

pub fn golden_names() -> Vec<String> {
    golden_histories().into_iter().map(|x| x.0).collect()
}

pub(crate) fn load_golden(root: &Path, name: &str) -> Result<([Vec<u8>; 3], Expected, History), Failure> {
    let d = golden_dir(root).join(name);
    let files = read_files(&d, "m").map_err(|e| Failure::new("infra", None, format!("golden image {name} unreadable: {e}")))?;
    let exp: Expected = serde_json::from_str(
        &std::fs::read_to_string(d.join("expected.json")).map_err(|e| Failure::new("infra", None, format!("expected.json: {e}")))?,
    )
    .map_err(|e| Failure::new("infra", None, format!("expected.json: {e}")))?;
    let h: History = serde_json::from_str(
        &std::fs::read_to_string(d.join("history.json")).map_err(|e| Failure::new("infra", None, format!("history.json: {e}")))?,
    )
    .map_err(|e| Failure::new("infra", None, format!("history.json: {e}")))?;
    Ok((files, exp, h))
}

pub(crate) fn exp_model(exp: &Expected) -> BTreeMap<Vec<u8>, Vec<u8>> {
    exp.contents
        .iter()
        .map(|(k, v)| (unhex(k).unwrap(), unhex(v).unwrap()))
        .collect()
}

pub(crate) fn put_files(dir: &Path, files: &[Vec<u8>; 3]) -> Result<(), Failure> {
    let names = crate::exec::file_names("m");
    for i in 0..3 {
        std::fs::write(dir.join(&names[i]), &files[i]).map_err(|e| Failure::new("infra", None, format!("write: {e}")))?;
    }
    Ok(())
}

macro_rules! gfail {
    ($($arg:tt)*) => { return Err(Failure::new("format", None, format!($($arg)*))) };
}

/// checks (1) (2) (3) (5) on one golden image
fn static_checks(name: &str, w: &WCtx) -> Result<Report, Failure> {
    let (files, exp, h) = load_golden(&w.verif_root, name)?;
    let mut rep = Report::default();
    let model = exp_model(&exp);
    // (1) independent decode of the golden bytes
    let d = decoder::decode(exp.kt, &files[0], &files[1], &files[2]);
    if let Some(c) = d.header.first().or(d.structure.first()).or(d.tiling.first()) {
        gfail!("golden image {name}: the independent decoder complains: {c}");
    }
    if d.n_buckets != exp.buckets {
        gfail!("golden image {name}: header says {} buckets, expected {}", d.n_buckets, exp.buckets);
    }
    if d.contents() != model {
        gfail!("golden image {name}: decoded contents differ from expected.json");
    }
    for e in &d.entries {
        if exp.placement.get(&hex(&e.key)) != Some(&e.bucket) {
            gfail!("golden image {name}: key {} sits in bucket {} but expected.json places it in {:?}", hex(&e.key), e.bucket, exp.placement.get(&hex(&e.key)));
        }
    }
    // (2) the current build opens it: every key, absent keys, len, iteration; (3) bytes unchanged
    let ctx = w.ctx();
    put_files(&ctx.dir, &files)?;
    let r = guarded(&ctx, || {
        let db = abyssiniandb::open_file(&ctx.dir).map_err(|e| Failure::new("error", None, format!("open_file: {e}")))?;
        // opened with other parameters than at creation: the stored ones must win
        let mut m = open_map(&db, "m", exp.kt, &Params::plain(Buckets::BucketsSize(16)))
            .map_err(|e| Failure::new("error", None, format!("golden image {name}: open: {e}")))?;
        let l = m.len().map_err(|e| Failure::new("error", None, format!("len: {e}")))?;
        if l != model.len() as u64 {
            gfail!("golden image {name}: len() = {l}, expected {}", model.len());
        }
        for (k, v) in &model {
            let got = m.get(k).map_err(|e| Failure::new("error", None, format!("get: {e}")))?;
            if got.as_ref() != Some(v) {
                gfail!("golden image {name}: get({}) returns {:?} bytes, expected {} bytes", hex(k), got.map(|g| g.len()), v.len());
            }
        }
        for k in h.maps[0].keys.iter().map(|k| k.bytes()).filter(|k| !model.contains_key(k)) {
            let got = m.get(&k).map_err(|e| Failure::new("error", None, format!("get: {e}")))?;
            if got.is_some() {
                gfail!("golden image {name}: get of the deleted key {} returns a value", hex(&k));
            }
        }
        let out = m.iterate(0, None, 1);
        let mut seen: BTreeMap<Vec<u8>, Vec<u8>> = BTreeMap::new();
        for (k, v) in out.items {
            seen.insert(k.unwrap(), v.unwrap());
        }
        if seen != model {
            gfail!("golden image {name}: iteration yields other contents than expected.json");
        }
        let _ = m.stats().map_err(|e| Failure::new("error", None, format!("stats: {e}")))?;
        Ok(Report::default())
    });
    let after = read_files(&ctx.dir, "m");
    // (2b) a freshly spawned process whose allocator places byte buffers at odd addresses sees the
    // same contents (placement must depend on the key bytes and the table size only)
    let child = {
        use crate::childproc::{digest_model, run_verify_child_misaligned, DirMap, VerifyReq};
        let keys: Vec<Vec<u8>> = h.maps[0].keys.iter().map(|k| k.bytes()).collect();
        let req = VerifyReq {
            dir: ctx.dir.to_string_lossy().to_string(),
            maps: vec![DirMap {
                name: "m".into(),
                kt: exp.kt,
                params: Params::plain(Buckets::BucketsSize(16)),
                keys: keys.iter().map(|k| hex(k)).collect(),
            }],
        };
        match run_verify_child_misaligned(&w.exe, &req, &ctx.dir) {
            Ok(g) => {
                if g.maps[0] != digest_model(&keys, &model) {
                    Err(format!("golden image {name}: a process whose byte buffers live at odd addresses reads other contents: {:?} vs {:?}", g.maps[0], digest_model(&keys, &model)))
                } else {
                    Ok(())
                }
            }
            Err(e) => Err(format!("golden image {name}: opening it in a process whose byte buffers live at odd addresses failed: {e}")),
        }
    };
    w.cleanup(&ctx.dir);
    r?;
    if let Err(e) = child {
        gfail!("{e}");
    }
    let after = after.map_err(|e| Failure::new("infra", None, format!("read: {e}")))?;
    if after != files {
        gfail!("golden image {name}: files changed by read-only use under the current build");
    }
    // (5) the current build writes the same history: same contents, same placement, same bytes
    let ctx = w.ctx();
    let r = guarded(&ctx, || {
        let mut e = Exec::new(&h, &ctx)?;
        e.run()?;
        Ok(e.rep.clone())
    });
    let fresh = read_files(&ctx.dir, "m");
    w.cleanup(&ctx.dir);
    r.map_err(|mut f| {
        f.msg = format!("golden history {name} under the current build: {}", f.msg);
        f
    })?;
    let fresh = fresh.map_err(|e| Failure::new("infra", None, format!("read: {e}")))?;
    let d2 = decoder::decode(exp.kt, &fresh[0], &fresh[1], &fresh[2]);
    // structure AND tiling: the free-list heads are part of the documented header layout
    if let Some(c) = d2.header.first().or(d2.structure.first()).or(d2.tiling.first()) {
        gfail!("image written now for golden history {name}: the independent decoder (documented layout) complains: {c}");
    }
    if d2.n_buckets != exp.buckets {
        gfail!("image written now for golden history {name}: header says {} buckets, the documented rule gives {}", d2.n_buckets, exp.buckets);
    }
    if d2.contents() != model {
        gfail!("image written now for golden history {name}: contents differ from the golden expectation");
    }
    for e in &d2.entries {
        if exp.placement.get(&hex(&e.key)) != Some(&e.bucket) {
            gfail!("image written now for golden history {name}: key {} is placed in bucket {}, the released format places it in {:?}", hex(&e.key), e.bucket, exp.placement.get(&hex(&e.key)));
        }
    }
    // byte identity with the golden files is reported, not demanded: the statement asks for the
    // documented layout, encoding and placement, not for one particular slot allocation
    if fresh == files {
        rep.bump("fresh_image_byte_identical_to_golden");
    } else {
        rep.bump("fresh_image_differs_in_bytes_from_golden");
    }
    rep.bump("golden_static_checks");
    Ok(rep)
}

#[derive(Serialize, Deserialize, Clone, Debug)]
pub struct C12Cont {
    pub image: String,
    pub params: Params,
    pub ops: Vec<Op>,
}

fn cont_strategy(tier: Tier, image: String, kt: Kt, keys: Vec<Key>) -> BoxedStrategy<C12Cont> {
    cont_strategy_v(tier, image, kt, keys, false)
}

fn cont_strategy_v(tier: Tier, image: String, kt: Kt, keys: Vec<Key>, big: bool) -> BoxedStrategy<C12Cont> {
    let mut w = Weights::basic();
    w.flush = 2;
    w.sync = 1;
    w.iter = 3;
    w.reopen = 2;
    w.bulk = 2;
    w.stats = 1;
    let cfg = OpsCfg {
        w,
        val: if big { ValProfile::Big } else { ValProfile::Mixed },
        n_ops: if big { 1..=40 } else { tier.pick(1..=120, 1..=300) },
        reopen_params: None,
        reopen_child: false,
        max_batch: 8,
        n_maps: 1,
    };
    // the pool: the golden keys plus a few new ones
    let extra = keys_strategy(kt, KeyProfile::Medium, 0..=10);
    let nk = keys.len() + 10;
    let params = params_strategy(BufProfile::Plain, true, 4096);
    (extra, params, ops_strategy(&cfg, nk, Params::plain(Buckets::BucketsSize(8))))
        .prop_map(move |(_extra, params, ops)| C12Cont {
            image: image.clone(),
            params,
            ops,
        })
        .boxed()
}

fn cont_keys(h: &History) -> Vec<Key> {
    // golden pool + deterministic extra keys
    let mut ks = h.maps[0].keys.clone();
    for i in 0..10u64 {
        ks.push(gkey(h.maps[0].kt, 1000 + i * 13));
    }
    dedup_keys(ks)
}

fn run_cont(c: &C12Cont, w: &WCtx) -> Result<Report, Failure> {
    let (files, exp, gh) = load_golden(&w.verif_root, &c.image)?;
    let ctx = w.ctx();
    put_files(&ctx.dir, &files)?;
    let h = History {
        maps: vec![MapSpec {
            name: "m".into(),
            kt: exp.kt,
            params: c.params,
            keys: cont_keys(&gh),
                late: false,
            }],
        ops: c
            .ops
            .iter()
            .map(|op| match op {
                Op::Reopen { child, order, .. } => Op::Reopen {
                    params: c.params,
                    child: *child,
                    order: *order,
                },
                o => o.clone(),
            })
            .collect(),
        obs: Obs {
            decode_at_close: true,
            decode_at_sync: true,
            tiling: true,
            ..Default::default()
        },
        excluded: 0,
        quiet_prefix: 0,
    };
    let model = exp_model(&exp);
    let golden_keys: std::collections::BTreeSet<Vec<u8>> = model.keys().cloned().collect();
    let r = guarded(&ctx, || {
        let mut e = Exec::new(&h, &ctx)?;
        e.seed_model(0, model);
        e.run()?;
        Ok(e.rep.clone())
    });
    w.cleanup(&ctx.dir);
    let mut rep = r.map_err(|mut f| {
        f.msg = format!("continuation of golden image {}: {}", c.image, f.msg);
        f
    })?;
    // non-trivial: overwrites / deletes golden-era records
    let keys: Vec<Vec<u8>> = h.maps[0].keys.iter().map(|k| k.bytes()).collect();
    for op in &h.ops {
        match op {
            Op::Put { k, .. } | Op::Del { k } => {
                if golden_keys.contains(&keys[*k as usize % keys.len()]) {
                    rep.bump("touches_golden_record");
                }
            }
            _ => {}
        }
    }
    Ok(rep)
}

fn per_image(tier: Tier) -> u64 {
    tier.pick(300, 3000)
}

impl Prop for C12 {
    fn id(&self) -> &'static str {
        "C12"
    }
    fn rule(&self) -> String {
        "17 golden images (5 key types x {inserts only / deletes+overwrites+re-inserts with non-empty free lists / large slots with a free large slot}; tables of 8, 128 and 1024 buckets; plus a DbString map whose keys are not text: invalid UTF-8, multi-byte characters, NULs, the empty key, sitting inside chains; and a DbBytes map with keys of 780-2000 bytes of which four were deleted, so that the key file's two largest free lists are non-empty) written by a build of the PINNED commit and committed with their expected contents and key placement. Per image: (1) the independent decoder (own placement hash, own vu64) recovers exactly expected.json incl. each key's bucket; (2) the current build opens it (with other parameters than at creation): len, every key, deleted keys, full iteration, statistics; (3) files byte-identical after that read-only use; (5) the current build re-executes the image's history and the fresh image is decoded by the documented layout: same contents, same placement, clean structure and tiling (free-list heads at their documented offsets); byte identity with the golden files is reported as a label, not demanded; (4) 300 (thorough: 3000) seeded random continuation histories per image (updates, flush/sync, iteration, batches, clean reopen) against the model seeded from expected.json with decode + tiling checks at every sync and close. evaluations = static image checks + continuations. Non-trivial: a continuation that overwrites or deletes a golden-era record; distinct by case digest."
            .to_string()
    }
    fn assumptions(&self) -> Vec<String> {
        vec![
            "golden images were generated once from a scratch worktree of commit 4b82afd (tools/mkgolden.sh); their histories avoid the pinned release's known defects".into(),
            "one machine: little-endian, 64-bit".into(),
        ]
    }
    fn n_cases(&self, tier: Tier) -> u64 {
        let n = golden_names().len() as u64;
        n + n * per_image(tier)
    }
    fn run_case(&self, tier: Tier, seed: u64, index: u64, w: &WCtx) -> CaseOut {
        let names = golden_names();
        let n = names.len() as u64;
        if index < n {
            let mut out = CaseOut {
                index,
                evals: 1,
                profile: w.profile.clone(),
                ..Default::default()
            };
            match static_checks(&names[index as usize], w) {
                Ok(rep) => {
                    out.labels = rep.labels;
                    out.nontrivial.push(digest_of(&names[index as usize]));
                    if index == 0 {
                        out.sample = Some(json!({"static_checks_of_golden_image": names[index as usize]}));
                    }
                }
                Err(f) => {
                    out.failure = Some(f);
                    out.case = Some(json!({"Static": names[index as usize]}));
                }
            }
            return out;
        }
        let img = names[((index - n) % n) as usize].clone();
        let (kt, keys) = match load_golden(&w.verif_root, &img) {
            Ok((_, exp, h)) => (exp.kt, cont_keys(&h)),
            Err(f) => {
                return CaseOut {
                    index,
                    evals: 1,
                    failure: Some(f),
                    profile: w.profile.clone(),
                    ..Default::default()
                }
            }
        };
        // every 12th continuation stores values up to 16 MiB in the golden image
        let st = cont_strategy_v(tier, img, kt, keys, index % 12 == 5);
        let mut out = run_generated(
            index,
            &st,
            case_seed(seed, "C12", index),
            500,
            w,
            |c: &C12Cont| run_cont(c, w),
            |c, rep| (rep.has("touches_golden_record"), digest_of(c)),
        );
        if let Some(c) = out.case.take() {
            out.case = Some(json!({ "Cont": c }));
        }
        out
    }
    fn gen_case(&self, tier: Tier, seed: u64, index: u64) -> Value {
        let names = golden_names();
        let n = names.len() as u64;
        if index < n {
            return json!({"Static": names[index as usize]});
        }
        let img = names[((index - n) % n) as usize].clone();
        let root = crate::runner::verif_root();
        match load_golden(&root, &img) {
            Ok((_, exp, h)) => {
                let st = cont_strategy_v(tier, img, exp.kt, cont_keys(&h), index % 12 == 5);
                json!({"Cont": draw(&st, case_seed(seed, "C12", index))})
            }
            Err(_) => json!(null),
        }
    }
    fn replay(&self, case: &Value, w: &WCtx) -> Result<Report, Failure> {
        if let Some(n) = case.get("Static").and_then(|s| s.as_str()) {
            return static_checks(n, w);
        }
        let c: C12Cont = serde_json::from_value(case["Cont"].clone())
            .map_err(|e| Failure::new("infra", None, format!("bad replay file: {e}")))?;
        run_cont(&c, w)
    }
}
