//! C07 — tuning parameters never change observable behaviour.
use super::*;
use crate::gen::*;
use proptest::prelude::*;
use serde::{Deserialize, Serialize};

#[derive(Serialize, Deserialize, Clone, Debug)]
pub struct C07Case {
    pub h: History,
    pub params: Vec<Params>,
}

pub struct C07;

fn k_sets(tier: Tier) -> usize {
    tier.pick(4, 10)
}

fn base_cfg(tier: Tier, index: u64) -> HistCfg {
    let mut w = Weights::basic();
    w.iter = 3;
    w.flush = 1;
    w.bulk = 1;
    w.stats = 1;
    // every 3rd case: handle churn, incl. asking for the open map again with OTHER parameters
    // (which are ignored: the handle aliases the open map)
    if index % 3 == 1 {
        w.handles = 5;
    }
    let mut c = HistCfg {
        kts: Kt::ALL.to_vec(),
        key: if index % 9 == 0 { KeyProfile::Long } else { KeyProfile::Medium },
        n_keys: 1..=50,
        bufs: BufProfile::Plain,
        allow_lt8: true,
        max_buckets: 65536,
        ops: OpsCfg {
            w,
            val: if index % 4 == 0 { ValProfile::Big } else { ValProfile::Mixed },
            n_ops: tier.pick(0..=150, 0..=300),
            reopen_params: None,
            reopen_child: false,
            max_batch: 8,
            n_maps: 1,
        },
        obs: Obs {
            decode_at_close: true,
            ..Default::default()
        },
        target_pct: 0,
        prelude: Prelude::None,
        phases: false,
        special_keys: false,
        default_table: false,
        big_table: None,
        empty_mid: false,
        empty_end: false,
    };
    // every 12th case: hundreds of keys, so that the tiny tables of the tuple carry chains
    // of several hundred entries
    if index % 12 == 5 {
        make_dense(&mut c, tier == Tier::Thorough);
        c.max_buckets = 65536;
        c.ops.w.iter = 1;
        c.ops.w.stats = 0;
    }
    if index % 600 == 101 {
        make_very_dense_n(&mut c, 4300 + (index % 7) as u32 * 700);
        c.big_table = None;
        c.max_buckets = 65536;
        c.ops.n_ops = 50..=300;
    }
    c
}

fn strategy(tier: Tier, index: u64) -> BoxedStrategy<C07Case> {
    let k = k_sets(tier);
    let sets = proptest::collection::vec(params_strategy(BufProfile::Any, true, 65536), k..=k);
    let small = proptest::sample::select(vec![1u64, 2, 3, 4, 5, 7]);
    let big = proptest::sample::select(vec![128u64, 129, 256, 1000, 4096, 8192, 8193, 10000, 16383, 16384, 16385, 32768, 65536]);
    (history_strategy(base_cfg(tier, index)), sets, small, big)
        .prop_map(|(h, mut sets, small, big)| {
            // always one table < 8 buckets, one >= 128, one eviction-forcing fixed buffer
            if sets.len() >= 3 {
                // histories with thousands of entries always meet a one-bucket table
                let small = if h.quiet_prefix > 2000 { 1 } else { small };
                sets[0].buckets = Buckets::BucketsSize(small);
                sets[1].buckets = Buckets::BucketsSize(big);
                sets[2].val = BufP::Size(262144);
                sets[2].key = BufP::Size(0);
                sets[2].htx = BufP::Size(131072);
            }
            let (kb, vb) = size_bounds(&h.maps[0].keys, &h.ops);
            let mut h = h;
            let mut ex = 0;
            let sets: Vec<Params> = sets
                .into_iter()
                .map(|p| {
                    let (p2, e) = sanitize_params(p, kb, vb);
                    ex += e;
                    p2
                })
                .collect();
            h.excluded = ex;
            C07Case { h, params: sets }
        })
        .boxed()
}

fn budget(b: BufP, file_len: u64) -> u64 {
    match b {
        BufP::Size(x) => ((x as u64 / 131072).max(2)) * 131072,
        BufP::PerMille(p) => {
            if p >= 1000 {
                u64::MAX
            } else {
                (file_len / 1000 * p as u64).max(32768) + 131072
            }
        }
        BufP::Auto => (file_len / 1000 * 20).max(32768) + 4096,
    }
}

fn run_c07(c: &C07Case, w: &WCtx) -> Result<Report, Failure> {
    let mut total = Report::default();
    let n = c.params.len();
    let mut distinct_tables = std::collections::BTreeSet::new();
    for (i, p) in c.params.iter().enumerate() {
        let mut h = c.h.clone();
        h.maps[0].params = *p;
        // the image is finally reopened under the next parameter set of the tuple
        let foreign = c.params[(i + 1) % n];
        let (kb, vb) = size_bounds(&h.maps[0].keys, &h.ops);
        let (foreign, _) = sanitize_params_for(foreign, kb, vb, p.buckets);
        h.ops.push(Op::Reopen {
            params: foreign,
            child: false,
            order: (i % 4) as u8,
        });
        let ctx = w.ctx();
        let expect_n = p.buckets.bucket_count();
        distinct_tables.insert(expect_n);
        let r = guarded(&ctx, || {
            let mut e = Exec::new(&h, &ctx)?;
            e.run()?;
            // after close: the stored bucket count is the one of creation
            let files = crate::exec::read_files(&ctx.dir, "m")
                .map_err(|e| Failure::new("infra", None, format!("read files: {e}")))?;
            let d = crate::decoder::decode(h.maps[0].kt, &files[0], &files[1], &files[2]);
            // (the table file's header is the same under every feature set)
            if d.n_buckets != expect_n {
                return Err(Failure::new(
                    "mismatch",
                    Some(h.ops.len()),
                    format!(
                        "parameter set {i}: table was created with {expect_n} buckets but the header says {} after reopening with other parameters",
                        d.n_buckets
                    ),
                ));
            }
            let lens = [files[0].len() as u64, files[1].len() as u64, files[2].len() as u64];
            let mut rep = e.rep.clone();
            if lens[0] > budget(p.htx, lens[0]) || lens[1] > budget(p.key, lens[1]) || lens[2] > budget(p.val, lens[2]) {
                rep.bump("eviction_forced");
            }
            Ok(rep)
        });
        w.cleanup(&ctx.dir);
        match r {
            Ok(rep) => {
                for (l, v) in rep.labels {
                    total.add(&l, v);
                }
            }
            Err(mut f) => {
                f.msg = format!("under parameter set {i} {:?}: {}", p, f.msg);
                return Err(f);
            }
        }
    }
    total.add("parameter_sets", n as u64);
    if distinct_tables.len() >= 3 {
        total.bump("three_table_sizes");
    }
    Ok(total)
}

impl Prop for C07 {
    fn id(&self) -> &'static str {
        "C07"
    }
    fn rule(&self) -> String {
        "each seeded random history (all key types, values up to 1 MiB, iterations, batches, statistics calls; in every third case handle churn incl. asking for the open map again through db_map_X_with_params with other parameters, which are ignored) is executed under k=4 (thorough: 10) generated parameter sets from {BucketsSize|Capacity in 1..65536} x {Auto, PerMille(1000|2000|p<1000), Size(0|1|131072|262144|300000|1 MiB)} per file, always including one table below 8 buckets, one of >= 128 buckets and one set of minimal fixed buffers; every run is compared call by call with the one model (hence pairwise agreement), then the image is closed, decoded, reopened under the NEXT parameter set of the tuple (contents, len, iteration vs model) and the header's bucket count must still be the one of creation. evaluations counts (history, tuple) cases; label parameter_sets counts runs. Non-trivial: the tuple has >= 3 distinct table sizes and at least one run in which a file outgrew its buffer budget (eviction forced); distinct by case digest. PerMille(p<1000) on a file that can exceed 128 KiB is excluded (known finding D6b) and counted in excluded_draws."
            .to_string()
    }
    fn assumptions(&self) -> Vec<String> {
        vec![
            "the alternative cargo feature sets of the thorough tier are built by ./check C07 thorough into separate target directories".into(),
            "eviction is inferred from file size > buffer budget, not observed inside rabuf".into(),
        ]
    }
    fn n_cases(&self, tier: Tier) -> u64 {
        tier.pick(5000, 15000)
    }
    fn timeout_s(&self, tier: Tier) -> u64 {
        tier.pick(150, 400)
    }
    fn run_case(&self, tier: Tier, seed: u64, index: u64, w: &WCtx) -> CaseOut {
        let st = strategy(tier, index);
        let mut out = run_generated(
            index,
            &st,
            case_seed(seed, "C07", index),
            400,
            w,
            |c: &C07Case| run_c07(c, w),
            |c, rep| (rep.has("three_table_sizes") && rep.has("eviction_forced"), digest_of(c)),
        );
        out.excluded = out.labels.get("excluded_draws").copied().unwrap_or(0) / k_sets(tier).max(1) as u64;
        out
    }
    fn gen_case(&self, tier: Tier, seed: u64, index: u64) -> Value {
        serde_json::to_value(draw(&strategy(tier, index), case_seed(seed, "C07", index))).unwrap_or(json!(null))
    }
    fn replay(&self, case: &Value, w: &WCtx) -> Result<Report, Failure> {
        let c: C07Case = serde_json::from_value(case.clone())
            .map_err(|e| Failure::new("infra", None, format!("bad replay file: {e}")))?;
        run_c07(&c, w)
    }
    fn reductions(&self, case: &Value) -> Vec<Value> {
        // drop parameter sets, then ops
        let mut out = Vec::new();
        if let Some(ps) = case.get("params").and_then(|p| p.as_array()) {
            if ps.len() > 1 {
                for i in 0..ps.len() {
                    let mut c = case.clone();
                    let mut v = ps.clone();
                    v.remove(i);
                    c["params"] = Value::Array(v);
                    out.push(c);
                }
            }
        }
        for hred in history_reductions(&case["h"]) {
            let mut c = case.clone();
            c["h"] = hred;
            out.push(c);
        }
        out
    }
}
