//! C01 — every call history behaves like an ideal in-memory byte-string map.
use super::*;
use crate::gen::*;

pub struct C01;

const ENUM_CHUNKS: u64 = 64;

fn n_random(tier: Tier) -> u64 {
    tier.pick(15000, 60000)
}

fn cfg(tier: Tier, index: u64) -> HistCfg {
    // every 16th case is a long history on few keys, every 50th uses big values
    let long = index % 16 == 5;
    let big = index % 50 == 7;
    // thorough: a few histories of up to 1e5 calls (8-bucket and 65536-bucket tables)
    let huge = tier == Tier::Thorough && index % 2500 == 11;
    let mut w = Weights::basic();
    w.flush = 2;
    w.reopen = 2;
    w.burst = if index % 25 == 9 { 1 } else { 0 };
    let n_ops = if huge {
        50000..=100000
    } else if long {
        tier.pick(1..=2500, 1..=12000)
    } else {
        tier.pick(1..=400, 1..=600)
    };
    let mut c = HistCfg {
        kts: Kt::ALL.to_vec(),
        key: if index % 7 == 0 { KeyProfile::Long } else { KeyProfile::Medium },
        n_keys: if huge { 50..=1500 } else if long { 3..=40 } else if index % 5 == 0 { 30..=300 } else { 3..=40 },
        bufs: if index % 3 == 0 { BufProfile::Any } else { BufProfile::Plain },
        allow_lt8: !huge,
        max_buckets: if huge && index % 5000 == 11 { 8 } else { 65536 },
        ops: OpsCfg {
            w,
            val: if huge { ValProfile::Small } else if big { ValProfile::Big } else { ValProfile::Mixed },
            n_ops,
            reopen_params: None,
            reopen_child: false,
            max_batch: 0,
            n_maps: 1,
        },
        obs: Obs {
            decode_at_close: true,
            ..Default::default()
        },
        target_pct: 25,
        prelude: Prelude::None,
        phases: false,
        special_keys: false,
        default_table: false,
        big_table: None,
        empty_mid: false,
        empty_end: false,
    };
    // every 40th case: hundreds of keys in a table of 1..4 buckets (chains beyond 256 entries)
    if index % 40 == 13 && !huge {
        make_dense(&mut c, tier == Tier::Thorough);
    }
    if index % 800 == 213 {
        make_very_dense(&mut c);
    }
    // rarely reached regions
    c.phases = index % 10 == 4;
    c.special_keys = index % 8 == 3;
    // files beyond 2 MiB / 16 MiB, thousands of free large slots
    rare_regions(&mut c, index);
    if index % 3000 == 77 && !huge {
        // the default 16 Mi bucket table
        c.default_table = true;
        c.ops.n_ops = 1..=120;
        c.bufs = BufProfile::Plain;
    } else if index == 1005 || (tier == Tier::Thorough && index % 3000 == 5) {
        // more than 65535 entries
        c.prelude = Prelude::ManyEntries(70_000);
        c.max_buckets = 65536;
        c.allow_lt8 = false;
        // the point is the COUNT (> 2^16 entries), not the chain length: a table of 8 buckets makes
        // the 70000 inserts quadratic (half an hour per case)
        c.big_table = Some([4096u64, 16384, 65536][(index / 3000 % 3) as usize]);
        c.ops.val = ValProfile::Small;
        c.bufs = BufProfile::Plain;
    } else if index == 1009 || (tier == Tier::Thorough && index % 4000 == 9) {
        // value file beyond 256 MiB (17 values of 16 MiB)
        c.prelude = Prelude::Inflate { val_bytes: 272 * 1024 * 1024, key_bytes: 0 };
        c.ops.n_ops = 1..=200;
        c.ops.val = ValProfile::Mixed;
        c.bufs = BufProfile::Plain;
    }
    c
}

fn nontrivial(_h: &History, r: &Report) -> bool {
    (r.has("delete_present") && r.has("overwrite_other_class")) || r.has("file_gt_16k") || r.has("key_record_relocated")
}

fn hist_prop() -> HistProp {
    HistProp {
        id: "C01",
        level: "exploration",
        rule: "",
        assumptions: &[],
        cfg,
        n: n_random,
        nontrivial,
        timeout: |t| t.pick(60, 180),
        shrink_iters: 400,
    }
}

/// the small alphabet of the bounded-exhaustive part: 3 keys colliding in one bucket of an
/// 8-bucket table (10-byte keys, tight for the 16-byte key slot) x value sizes {0, 14, 15}
/// (14 is tight for the 16-byte value slot, 15 needs the next class)
fn alphabet() -> (Vec<Key>, Vec<Op>) {
    let base: Vec<Key> = (0..3).map(|i| Key::P { len: 10, seed: 100 + i }).collect();
    let keys = target_keys(base, 8, &[3]);
    let mut ops = Vec::new();
    for k in 0..3u32 {
        for len in [0u32, 14, 15] {
            ops.push(Op::Put {
                k,
                v: Val::P { len, seed: k as u32 },
            });
        }
        ops.push(Op::Del { k });
        ops.push(Op::Get { k });
    }
    (keys, ops)
}

fn enum_len(tier: Tier) -> u32 {
    tier.pick(4, 5)
}

/// sequence number -> op sequence: all sequences of length 1..=L over the alphabet
fn total_sequences(a: u64, l: u32) -> u64 {
    (1..=l).map(|i| a.pow(i)).sum()
}

fn sequence(mut n: u64, a: u64, l: u32) -> Vec<usize> {
    let mut len = 1;
    loop {
        let c = a.pow(len);
        if n < c || len == l {
            break;
        }
        n -= c;
        len += 1;
    }
    let mut v = Vec::new();
    for _ in 0..len {
        v.push((n % a) as usize);
        n /= a;
    }
    v
}

fn enum_history(seq: &[usize]) -> History {
    let (keys, alpha) = alphabet();
    History {
        maps: vec![MapSpec {
            name: "m".into(),
            kt: Kt::Bytes,
            params: Params::plain(Buckets::BucketsSize(8)),
            keys,
                late: false,
            }],
        ops: seq.iter().map(|&i| alpha[i].clone()).collect(),
        obs: Obs {
            full_compare_every_op: true,
            ..Default::default()
        },
        excluded: 0,
        quiet_prefix: 0,
    }
}

impl Prop for C01 {
    fn id(&self) -> &'static str {
        "C01"
    }
    fn rule(&self) -> String {
        "seeded random call histories (put/get/delete/includes_key/len/is_empty, 2% flush, 2% close+reopen; all five key types; 3-300 pool keys with lengths on key-slot boundaries; values biased to slot-class edges, the large list, 4 KiB multiples, rarely 128 KiB/1 MiB; tables 1..65536 buckets; 25% bucket-targeted; every 16th history has up to 2500 calls (thorough 12000), thorough adds 60 histories of 5e4-1e5 calls) compared call by call with a BTreeMap, final full comparison + independent decode; plus bounded-exhaustive enumeration of all call sequences up to length 4 (thorough: 5) over 3 colliding keys x value sizes {0,14,15} x {put,delete,get} with a full comparison after every update. A random case is non-trivial if it has (a delete of a present key and an overwrite that changes the value's slot class) or a key/value file beyond 16 KiB or an observed key-record relocation; every enumerated sequence of length >= 3 containing a put after a delete is non-trivial. Distinctness by digest of the case."
            .to_string()
    }
    fn assumptions(&self) -> Vec<String> {
        vec![
            "healthy tmpfs scratch directory".into(),
            "hangs are detected by a watchdog and confirmed by two isolated re-runs; otherwise reported as inconclusive (exit 2)".into(),
            "keys of the integer typed maps are 8-byte LE integers / canonical vu64 encodings (documented domain)".into(),
        ]
    }
    fn n_cases(&self, tier: Tier) -> u64 {
        n_random(tier) + ENUM_CHUNKS
    }
    fn timeout_s(&self, tier: Tier) -> u64 {
        tier.pick(150, 400)
    }
    fn run_case(&self, tier: Tier, seed: u64, index: u64, w: &WCtx) -> CaseOut {
        let nr = n_random(tier);
        if index < nr {
            return hist_prop().run_case(tier, seed, index, w);
        }
        // enumeration chunk
        let chunk = index - nr;
        let (_, alpha) = alphabet();
        let a = alpha.len() as u64;
        let l = enum_len(tier);
        let total = total_sequences(a, l);
        let per = (total + ENUM_CHUNKS - 1) / ENUM_CHUNKS;
        let lo = chunk * per;
        let hi = ((chunk + 1) * per).min(total);
        let mut out = CaseOut {
            index,
            evals: 0,
            profile: w.profile.clone(),
            ..Default::default()
        };
        for n in lo..hi {
            let seq = sequence(n, a, l);
            let h = enum_history(&seq);
            out.evals += 1;
            match run_history(&h, w) {
                Ok(_) => {
                    // put after delete in a sequence of length >= 3
                    let mut seen_del = false;
                    let mut nt = false;
                    for op in &h.ops {
                        match op {
                            Op::Del { .. } => seen_del = true,
                            Op::Put { .. } if seen_del => nt = true,
                            _ => {}
                        }
                    }
                    if nt && h.ops.len() >= 3 {
                        out.nontrivial.push(digest_of(&h));
                    }
                    if out.sample.is_none() && chunk == 7 && nt {
                        out.sample = Some(serde_json::to_value(&h).unwrap());
                    }
                }
                Err(f) => {
                    out.failure = Some(f);
                    out.case = Some(serde_json::to_value(&h).unwrap());
                    break;
                }
            }
        }
        out.labels.insert("enumerated_sequences".into(), out.evals);
        out
    }
    fn gen_case(&self, tier: Tier, seed: u64, index: u64) -> Value {
        if index < n_random(tier) {
            hist_prop().gen_case(tier, seed, index)
        } else {
            json!(null)
        }
    }
    fn replay(&self, case: &Value, w: &WCtx) -> Result<Report, Failure> {
        hist_prop().replay(case, w)
    }
    fn reductions(&self, case: &Value) -> Vec<Value> {
        history_reductions(case)
    }
}
