//! C16 — a failed flush is reported and loses nothing (fault enumeration with RLIMIT_FSIZE).
use super::*;
use crate::childproc::{digest_model, verify_dir, DirMap, VerifyReq};
use crate::dbx::open_map;
use serde::{Deserialize, Serialize};
use std::collections::BTreeMap;

pub struct C16;

#[derive(Serialize, Deserialize, Clone, Debug, PartialEq)]
pub struct C16Case {
    /// 0: big values (value file largest), 1: many long keys (key file largest), 2: huge table
    /// (table file largest), 3: exactly 65536 small updates between the baseline flush and the call
    pub shape: u8,
    /// 0 flush, 1 sync_data, 2 sync_all (on the map); 3 sync_data, 4 sync_all on the database
    /// object, with a second small map "zz_small" (vu64 keys, visited after the big one) open
    pub call: u8,
    /// RLIMIT_FSIZE in force during the call
    pub limit: u64,
    pub kt: Kt,
    /// 1: between the refused call and the retry (limit lifted) further updates are made to both
    /// maps (an overwrite of an old key, a new key, a delete) and the retry uses the next call kind
    #[serde(default)]
    pub mid: u8,
    /// 1: the database directory has a name that is not valid UTF-8 (a Latin-1 `donn\xe9es`)
    #[serde(default)]
    pub odd_dir: u8,
}

#[derive(Serialize, Deserialize, Clone, Debug)]
pub struct ChildReq {
    pub dir: String,
    pub case: C16Case,
    /// dry run: no limit, report file sizes
    pub dry: bool,
}

#[derive(Serialize, Deserialize, Clone, Debug, Default)]
pub struct ChildOut {
    pub failure: Option<String>,
    pub call_ok: bool,
    pub reads_err_under_limit: u64,
    pub sizes: [u64; 3],
    pub recovered_flush_ok: bool,
    /// what the child was doing when `failure` arose: baseline | call | ok-under-limit | reads | recovered
    #[serde(default)]
    pub stage: String,
}

fn params_for(shape: u8) -> Params {
    Params {
        // non-evicting buffers: the updates stay in memory until flush
        val: BufP::PerMille(1000),
        key: BufP::PerMille(1000),
        htx: BufP::PerMille(1000),
        buckets: match shape {
            2 => Buckets::BucketsSize(65536),
            1 => Buckets::BucketsSize(1024),
            _ => Buckets::BucketsSize(16),
        },
    }
}

fn key_bytes(kt: Kt, shape: u8, i: u64) -> Vec<u8> {
    match kt {
        Kt::U64 | Kt::I64 => (i.wrapping_mul(0x9E3779B97F4A7C15)).to_le_bytes().to_vec(),
        Kt::Vu64 => crate::decoder::vu64_encode(i.wrapping_mul(0x9E3779B97F4A7C15) >> 3),
        _ => {
            let len = if shape == 1 { 900 + (i % 100) as usize } else { 8 + (i % 9) as usize };
            let raw = pattern_bytes(len, i as u32);
            if kt == Kt::String {
                raw.iter().map(|b| b'!' + (b % 90)).collect()
            } else {
                raw
            }
        }
    }
}

/// the workload of a shape: (phase A updates, phase B updates); an update is (key, Some(value)|None)
fn workload(kt: Kt, shape: u8) -> (Vec<(Vec<u8>, Option<Vec<u8>>)>, Vec<(Vec<u8>, Option<Vec<u8>>)>) {
    let mut a = Vec::new();
    let mut b = Vec::new();
    match shape {
        0 => {
            for i in 0..2u64 {
                a.push((key_bytes(kt, shape, i), Some(pattern_bytes(150_000 + i as usize * 1111, i as u32))));
            }
            for i in 2..5u64 {
                b.push((key_bytes(kt, shape, i), Some(pattern_bytes(200_000 + i as usize * 777, i as u32))));
            }
            b.push((key_bytes(kt, shape, 0), Some(pattern_bytes(400_000, 9))));
            b.push((key_bytes(kt, shape, 1), None));
            b.push((key_bytes(kt, shape, 7), Some(pattern_bytes(100, 9))));
        }
        1 => {
            let n = if matches!(kt, Kt::Bytes | Kt::String) { 600 } else { 20000 };
            for i in 0..n / 3 {
                a.push((key_bytes(kt, shape, i), Some(pattern_bytes(5, i as u32))));
            }
            for i in n / 3..n {
                b.push((key_bytes(kt, shape, i), Some(pattern_bytes(7, i as u32))));
            }
            for i in 0..n / 10 {
                b.push((key_bytes(kt, shape, i * 3), None));
            }
        }
        3 => {
            a.push((key_bytes(kt, shape, 0), Some(pattern_bytes(9, 0))));
            for i in 0..65536u64 {
                b.push((key_bytes(kt, shape, i % 40), Some(pattern_bytes(7 + (i % 3) as usize, (i / 40) as u32))));
            }
        }
        _ => {
            for i in 0..10u64 {
                a.push((key_bytes(kt, shape, i), Some(pattern_bytes(30, i as u32))));
            }
            for i in 10..60u64 {
                b.push((key_bytes(kt, shape, i), Some(pattern_bytes(40, i as u32))));
            }
            b.push((key_bytes(kt, shape, 3), None));
        }
    }
    (a, b)
}

/// updates made between the refused call and the retry (mid = 1)
fn mid_updates(kt: Kt, shape: u8) -> Vec<(Vec<u8>, Option<Vec<u8>>)> {
    vec![
        (key_bytes(kt, shape, 0), Some(pattern_bytes(1234, 77))),
        (key_bytes(kt, shape, 1_000_003), Some(pattern_bytes(10, 5))),
        (key_bytes(kt, shape, 3), None),
        (key_bytes(kt, shape, 2), Some(pattern_bytes(77, 78))),
    ]
}

fn model_of(kt: Kt, shape: u8, mid: u8) -> (Vec<Vec<u8>>, BTreeMap<Vec<u8>, Vec<u8>>) {
    let (a, b) = workload(kt, shape);
    let mut m = BTreeMap::new();
    let mut keys = Vec::new();
    let c = if mid > 0 { mid_updates(kt, shape) } else { Vec::new() };
    for (k, v) in c.iter() {
        let _ = v;
        keys.push(k.clone());
    }
    for (k, v) in a.into_iter().chain(b.into_iter()).chain(c.into_iter()) {
        if !keys.contains(&k) && keys.len() < 80 {
            keys.push(k.clone());
        }
        match v {
            Some(v) => {
                m.insert(k, v);
            }
            None => {
                m.remove(&k);
            }
        }
    }
    keys.push(b"never-inserted-key".to_vec());
    (keys, m)
}

const SMALL: &str = "zz_small";

fn small_updates(phase: u8) -> Vec<(Vec<u8>, Vec<u8>)> {
    (0..3u64)
        .map(|i| {
            let n = 1000 + i * 17 + phase as u64 * 100000;
            (crate::decoder::vu64_encode(n), format!("small-{phase}-{i}").into_bytes())
        })
        .collect()
}

fn small_model(mid: u8) -> (Vec<Vec<u8>>, BTreeMap<Vec<u8>, Vec<u8>>) {
    let mut m = BTreeMap::new();
    let mut keys = Vec::new();
    for ph in 0..2u8 + mid.min(1) {
        for (k, v) in small_updates(ph) {
            keys.push(k.clone());
            m.insert(k, v);
        }
    }
    keys.push(crate::decoder::vu64_encode(7));
    (keys, m)
}

fn small_params() -> Params {
    Params {
        val: BufP::PerMille(1000),
        key: BufP::PerMille(1000),
        htx: BufP::PerMille(1000),
        buckets: Buckets::BucketsSize(8),
    }
}

fn set_limit(l: Option<u64>) {
    let mut rl: libc::rlimit = unsafe { std::mem::zeroed() };
    unsafe {
        libc::getrlimit(libc::RLIMIT_FSIZE, &mut rl);
    }
    rl.rlim_cur = match l {
        Some(x) => x as libc::rlim_t,
        None => rl.rlim_max,
    };
    unsafe {
        libc::setrlimit(libc::RLIMIT_FSIZE, &rl);
    }
}

fn snapshot_small(dir: &std::path::Path, snapbase: &std::path::Path, tag: &str, mid: u8) -> Result<(), String> {
    let snap = snapbase.join(format!("snap-small-{tag}"));
    let _ = std::fs::remove_dir_all(&snap);
    std::fs::create_dir_all(&snap).map_err(|e| format!("mkdir: {e}"))?;
    let files = crate::exec::read_files(dir, SMALL).map_err(|e| format!("read files: {e}"))?;
    let names = crate::exec::file_names(SMALL);
    for i in 0..3 {
        std::fs::write(snap.join(&names[i]), &files[i]).map_err(|e| format!("write snap: {e}"))?;
    }
    let (keys, model) = small_model(mid);
    let d = crate::decoder::decode(Kt::Vu64, &files[0], &files[1], &files[2]);
    if let Some(c) = d.header.first().or(d.structure.first()) {
        return Err(format!("second map: decoder: {c}"));
    }
    if d.contents() != model {
        return Err("second map: decoded contents differ from the model".into());
    }
    let req = VerifyReq {
        dir: snap.to_string_lossy().to_string(),
        maps: vec![DirMap {
            name: SMALL.into(),
            kt: Kt::Vu64,
            params: small_params(),
            keys: keys.iter().map(|k| hex(k)).collect(),
        }],
    };
    let got = verify_dir(&req)?;
    let _ = std::fs::remove_dir_all(&snap);
    if got.maps[0] != digest_model(&keys, &model) {
        return Err("second map: the copy opened with the crate shows other contents than the model".into());
    }
    Ok(())
}

fn snapshot_equals_model(dir: &std::path::Path, snapbase: &std::path::Path, kt: Kt, shape: u8, tag: &str, mid: u8) -> Result<(), String> {
    let snap = snapbase.join(format!("snap-{tag}"));
    let _ = std::fs::remove_dir_all(&snap);
    std::fs::create_dir_all(&snap).map_err(|e| format!("mkdir: {e}"))?;
    let files = crate::exec::read_files(dir, "f").map_err(|e| format!("read files: {e}"))?;
    let names = crate::exec::file_names("f");
    for i in 0..3 {
        std::fs::write(snap.join(&names[i]), &files[i]).map_err(|e| format!("write snap: {e}"))?;
    }
    let (keys, model) = model_of(kt, shape, mid);
    let d = crate::decoder::decode(kt, &files[0], &files[1], &files[2]);
    if let Some(c) = d.header.first().or(d.structure.first()) {
        return Err(format!("decoder: {c}"));
    }
    if d.contents() != model {
        return Err(format!(
            "decoded contents ({} entries) differ from the model ({} entries)",
            d.contents().len(),
            model.len()
        ));
    }
    let req = VerifyReq {
        dir: snap.to_string_lossy().to_string(),
        maps: vec![DirMap {
            name: "f".into(),
            kt,
            params: params_for(shape),
            keys: keys.iter().map(|k| hex(k)).collect(),
        }],
    };
    let got = verify_dir(&req)?;
    let _ = std::fs::remove_dir_all(&snap);
    if got.maps[0] != digest_model(&keys, &model) {
        return Err("the copy opened with the crate shows other contents than the model".into());
    }
    Ok(())
}

/// child process: `vp c16-child <req.json>`; prints one JSON line (ChildOut) and _exits without
/// running destructors (as if killed right after the last call)
pub fn child_main(req_file: &str) -> i32 {
    crate::runner::install_panic_hook();
    crate::runner::quiet_panics(true);
    let req: ChildReq = serde_json::from_str(&std::fs::read_to_string(req_file).expect("req")).expect("req json");
    unsafe {
        libc::signal(libc::SIGXFSZ, libc::SIG_IGN);
    }
    let mut out = ChildOut::default();
    let snapbase = std::path::PathBuf::from(&req.dir);
    let c = req.case.clone();
    // the database directory itself: <req.dir>/db, or a name that is not valid UTF-8
    let dir = if c.odd_dir > 0 {
        use std::os::unix::ffi::OsStrExt;
        snapbase.join(std::ffi::OsStr::from_bytes(b"donn\xe9es"))
    } else {
        snapbase.join("db")
    };
    let stage = std::cell::Cell::new("baseline");
    let res = std::panic::catch_unwind(std::panic::AssertUnwindSafe(|| -> Result<(), String> {
        let _ = std::fs::create_dir_all(&dir);
        let db = abyssiniandb::open_file(&dir).map_err(|e| format!("open_file: {e}"))?;
        let mut m = open_map(&db, "f", c.kt, &params_for(c.shape)).map_err(|e| format!("open map: {e}"))?;
        let (a, b) = workload(c.kt, c.shape);
        let apply = |m: &mut Box<dyn crate::dbx::MapH>, ups: &[(Vec<u8>, Option<Vec<u8>>)]| -> Result<(), String> {
            for (k, v) in ups {
                match v {
                    Some(v) => m.put(k, v).map_err(|e| format!("put with the limit lifted returned Err: {e}"))?,
                    None => {
                        m.delete(k).map_err(|e| format!("delete with the limit lifted returned Err: {e}"))?;
                    }
                }
            }
            Ok(())
        };
        let db_level = c.call >= 3;
        let mut small = open_map(&db, SMALL, Kt::Vu64, &small_params()).map_err(|e| format!("open second map: {e}"))?;
        apply(&mut m, &a)?;
        for (k, v) in small_updates(0) {
            small.put(&k, &v).map_err(|e| format!("put (second map): {e}"))?;
        }
        m.flush().map_err(|e| format!("baseline flush returned Err: {e}"))?;
        small.flush().map_err(|e| format!("baseline flush (second map) returned Err: {e}"))?;
        apply(&mut m, &b)?;
        for (k, v) in small_updates(1) {
            small.put(&k, &v).map_err(|e| format!("put (second map): {e}"))?;
        }
        let (keys, model) = model_of(c.kt, c.shape, 0);
        if !req.dry {
            set_limit(Some(c.limit));
        }
        stage.set("call");
        let r = match c.call {
            0 => m.flush(),
            1 => m.sync_data(),
            2 => m.sync_all(),
            3 => db.sync_data(),
            _ => db.sync_all(),
        };
        out.call_ok = r.is_ok();
        stage.set("reads");
        // (i) reads under the limit: Err is acceptable, a wrong value is not
        for k in &keys {
            match m.get(k) {
                Ok(v) => {
                    if v.as_ref() != model.get(k) {
                        return Err(format!(
                            "while the limit is in force get({}) returned a wrong value (len {:?}, expected {:?})",
                            hex(&k[..k.len().min(12)]),
                            v.map(|x| x.len()),
                            model.get(k).map(|x| x.len())
                        ));
                    }
                }
                Err(_) => out.reads_err_under_limit += 1,
            }
        }
        if out.call_ok {
            // nothing may have been swallowed: what is on disk now is the model state
            set_limit(None);
            stage.set("ok-under-limit");
            snapshot_equals_model(&dir, &snapbase, c.kt, c.shape, "ok", 0).map_err(|e| {
                format!("the call returned Ok under RLIMIT_FSIZE={} but the files on disk do not hold the current state: {e}", c.limit)
            })?;
            if db_level {
                snapshot_small(&dir, &snapbase, "ok", 0).map_err(|e| {
                    format!("the database-level call returned Ok under RLIMIT_FSIZE={} but the files on disk do not hold the current state: {e}", c.limit)
                })?;
            }
        }
        // (ii) limit lifted: every read equals the model
        set_limit(None);
        stage.set("reads");
        for k in &keys {
            let v = m.get(k).map_err(|e| format!("after lifting the limit get returned Err: {e}"))?;
            if v.as_ref() != model.get(k) {
                return Err(format!(
                    "after the failed flush (limit lifted) get({}) differs from the model (len {:?}, expected {:?})",
                    hex(&k[..k.len().min(12)]),
                    v.map(|x| x.len()),
                    model.get(k).map(|x| x.len())
                ));
            }
        }
        let l = m.len().map_err(|e| format!("len: {e}"))?;
        if l != model.len() as u64 {
            return Err(format!("after the failed flush len() = {l}, model has {}", model.len()));
        }
        let it = m.iterate(0, None, 0);
        let mut seen: BTreeMap<Vec<u8>, Vec<u8>> = BTreeMap::new();
        for (k, v) in it.items {
            seen.insert(k.unwrap(), v.unwrap());
        }
        if seen != model {
            return Err("after the failed flush a full iteration differs from the model".into());
        }
        // (iii) the next flush succeeds and makes everything durable
        let (skeys, smodel) = small_model(0);
        for k in &skeys {
            let v = small.get(k).map_err(|e| format!("after lifting the limit get (second map) returned Err: {e}"))?;
            if v.as_ref() != smodel.get(k) {
                return Err("after the failed sync (limit lifted) the second map's contents differ from the model".into());
            }
        }
        stage.set("recovered");
        let mut retry = c.call;
        if c.mid > 0 {
            // more updates before the retry; the retry is another call kind of the same level
            apply(&mut m, &mid_updates(c.kt, c.shape))?;
            for (k, v) in small_updates(2) {
                small.put(&k, &v).map_err(|e| format!("put (second map): {e}"))?;
            }
            retry = match c.call {
                0 => 1,
                1 => 2,
                2 => 0,
                3 => 4,
                _ => 3,
            };
        }
        let r2 = match retry {
            0 => m.flush(),
            1 => m.sync_data(),
            2 => m.sync_all(),
            3 => db.sync_data(),
            _ => db.sync_all(),
        };
        out.recovered_flush_ok = r2.is_ok();
        if let Err(e) = r2 {
            return Err(format!("with the limit lifted the next flush/sync still returns Err: {e}"));
        }
        snapshot_equals_model(&dir, &snapbase, c.kt, c.shape, "rec", c.mid).map_err(|e| {
            format!(
                "after the recovered {} (returned Ok with the limit lifted{}) the files on disk do not hold the current state: {e}",
                ["flush", "sync_data", "sync_all", "db.sync_data", "db.sync_all"][retry as usize % 5],
                if c.mid > 0 { ", further updates made after the refused call" } else { "" }
            )
        })?;
        if db_level {
            snapshot_small(&dir, &snapbase, "rec", c.mid).map_err(|e| {
                format!("after the recovered database-level sync the files on disk do not hold the current state: {e}")
            })?;
        }
        let f = crate::exec::read_files(&dir, "f").map_err(|e| format!("read: {e}"))?;
        out.sizes = [f[0].len() as u64, f[1].len() as u64, f[2].len() as u64];
        std::mem::forget(m);
        std::mem::forget(small);
        std::mem::forget(db);
        Ok(())
    }));
    match res {
        Ok(Ok(())) => {}
        Ok(Err(e)) => out.failure = Some(e),
        Err(p) => out.failure = Some(format!("panicked: {}", crate::runner::panic_text(&p))),
    }
    out.stage = stage.get().to_string();
    println!("{}", serde_json::to_string(&out).unwrap());
    use std::io::Write;
    let _ = std::io::stdout().flush();
    // no destructors: the directory is left behind as by SIGKILL
    unsafe { libc::_exit(0) }
}

const CHUNK: u64 = 131072;

/// candidate thresholds from the file sizes of a shape: every chunk boundary +-1, the header
/// region, the file ends
pub fn thresholds(sizes: [u64; 3]) -> Vec<u64> {
    let mut v: Vec<u64> = vec![0, 1, 127, 128, 191, 192, 193, 4095, 4096];
    let max = *sizes.iter().max().unwrap();
    let mut b = CHUNK;
    while b <= max + CHUNK {
        for d in [-1i64, 0, 1, 1000] {
            v.push((b as i64 + d) as u64);
        }
        b += CHUNK;
    }
    for s in sizes {
        for d in [-1i64, 0, 1] {
            if s as i64 + d >= 0 {
                v.push((s as i64 + d) as u64);
            }
        }
        v.push(s / 2);
    }
    v.push(max + CHUNK * 4);
    v.sort();
    v.dedup();
    v
}

pub(crate) fn run_child(c: &C16Case, dry: bool, w: &WCtx) -> Result<(ChildOut, std::path::PathBuf), Failure> {
    let dir = w.fresh_dir();
    let req = ChildReq {
        dir: dir.to_string_lossy().to_string(),
        case: c.clone(),
        dry,
    };
    let out: Result<ChildOut, String> =
        crate::childproc::run_child_json(&w.exe, "c16-child", &serde_json::to_string(&req).unwrap(), &w.scratch, 120);
    match out {
        Ok(o) => Ok((o, dir)),
        Err(e) => {
            w.cleanup(&dir);
            if e.contains("hang") {
                Err(Failure::new("hang", None, format!("fault-injection child: {e}")))
            } else {
                Err(Failure::new("abort", None, format!("fault-injection child: {e}")))
            }
        }
    }
}

thread_local! {
    static SIZES: std::cell::RefCell<BTreeMap<(u8, u8), [u64; 3]>> = std::cell::RefCell::new(BTreeMap::new());
}

fn kt_index(kt: Kt) -> u8 {
    Kt::ALL.iter().position(|k| *k == kt).unwrap() as u8
}

fn sizes_of(shape: u8, kt: Kt, w: &WCtx) -> Result<[u64; 3], Failure> {
    if let Some(s) = SIZES.with(|s| s.borrow().get(&(shape, kt_index(kt))).copied()) {
        return Ok(s);
    }
    let c = C16Case {
        shape,
        call: 0,
        limit: 0,
        kt,
        mid: 0,
        odd_dir: 0,
    };
    let (o, dir) = run_child(&c, true, w)?;
    w.cleanup(&dir);
    if let Some(f) = o.failure {
        return Err(Failure::new("error", None, format!("dry run of shape {shape} without any limit failed: {f}")));
    }
    SIZES.with(|s| s.borrow_mut().insert((shape, kt_index(kt)), o.sizes));
    Ok(o.sizes)
}

pub(crate) fn run_c16(c: &C16Case, w: &WCtx) -> Result<Report, Failure> {
    run_c16_stage(c, w).map_err(|(f, _)| f)
}

/// the failure comes with the stage it arose in (C03 only claims ok-under-limit / recovered / left-behind)
pub(crate) fn run_c16_stage(c: &C16Case, w: &WCtx) -> Result<Report, (Failure, String)> {
    crate::exec::tick();
    let mut rep = Report::default();
    let (o, dir) = run_child(c, false, w).map_err(|f| (f, "infra".to_string()))?;
    let lb = |f: Failure| ("left-behind".to_string(), f);
    let fin = (|| {
        if let Some(f) = &o.failure {
            return Err((o.stage.clone(), Failure::new("fault", None, format!("[shape {} call {} RLIMIT_FSIZE={}] {f}", c.shape, ["flush", "sync_data", "sync_all", "db.sync_data", "db.sync_all"][c.call as usize % 5], c.limit))));
        }
        // the directory left behind by the process that exited without running destructors
        let (keys, model) = model_of(c.kt, c.shape, c.mid);
        if c.odd_dir > 0 {
            // the verifier takes its path as text: give the directory a plain name first
            use std::os::unix::ffi::OsStrExt;
            std::fs::rename(dir.join(std::ffi::OsStr::from_bytes(b"donn\xe9es")), dir.join("db"))
                .map_err(|e| lb(Failure::new("infra", None, format!("rename of the left-behind directory: {e}"))))?;
        }
        let req = VerifyReq {
            dir: dir.join("db").to_string_lossy().to_string(),
            maps: vec![DirMap {
                name: "f".into(),
                kt: c.kt,
                params: params_for(c.shape),
                keys: keys.iter().map(|k| hex(k)).collect(),
            }],
        };
        crate::runner::quiet_panics(true);
        let got = std::panic::catch_unwind(std::panic::AssertUnwindSafe(|| verify_dir(&req)));
        crate::runner::quiet_panics(false);
        match got {
            Ok(Ok(g)) => {
                if g.maps[0] != digest_model(&keys, &model) {
                    return Err(lb(Failure::new(
                        "fault",
                        None,
                        format!("[shape {} RLIMIT_FSIZE={}] the directory left behind after the recovered flush shows other contents than the model", c.shape, c.limit),
                    )));
                }
            }
            Ok(Err(e)) => return Err(lb(Failure::new("fault", None, format!("directory left behind cannot be opened: {e}")))),
            Err(p) => {
                return Err(lb(Failure::new(
                    "fault",
                    None,
                    format!("directory left behind cannot be opened: panic: {}", crate::runner::panic_text(&p)),
                )))
            }
        }
        Ok(())
    })();
    w.cleanup(&dir);
    fin.map_err(|(st, f)| (f, st))?;
    if o.call_ok {
        rep.bump("call_ok_under_limit");
    } else {
        rep.bump("call_err_under_limit");
        // which file was the first to be refused: flush order is val, key, htx
        let first = if o.sizes[2] > c.limit {
            "first_refused_val"
        } else if o.sizes[1] > c.limit {
            "first_refused_key"
        } else {
            "first_refused_htx"
        };
        rep.bump(first);
    }
    if o.reads_err_under_limit > 0 {
        rep.bump("reads_err_under_limit");
    }
    Ok(rep)
}

fn n_thresholds(tier: Tier) -> u64 {
    tier.pick(60, 250)
}

pub(crate) fn case_of(tier: Tier, index: u64, w: &WCtx) -> Result<C16Case, Failure> {
    let nt = n_thresholds(tier);
    let per_shape = nt * 5;
    let shape = ((index / per_shape) % 4) as u8;
    let call = ((index % per_shape) / nt) as u8;
    let j = index % nt;
    // key types rotate with the threshold index; the byte-key types make the key file large
    let kt = if shape == 1 {
        [Kt::Bytes, Kt::String][(j % 2) as usize]
    } else {
        Kt::ALL[(j % 5) as usize]
    };
    let sizes = sizes_of(shape, kt, w)?;
    let ts = thresholds(sizes);
    // spread the index over the candidate list
    let t = ts[((j as usize) * ts.len() / nt as usize).min(ts.len() - 1)];
    Ok(C16Case {
        shape,
        call,
        limit: t,
        kt,
        mid: ((j / 5) % 2) as u8,
        odd_dir: ((j / 10) % 3 == 1) as u8,
    })
}

impl Prop for C16 {
    fn id(&self) -> &'static str {
        "C16"
    }
    fn level(&self) -> &'static str {
        "fault_enumeration"
    }
    fn rule(&self) -> String {
        "fault enumeration in a child process (SIGXFSZ ignored): four workload shapes: three so that each file is in turn the largest (values of 150-400 KB; 600 keys of ~1 KB; 65536-bucket table with few entries) and one with exactly 65536 small updates between the baseline flush and the call, a flushed baseline followed by buffered updates made with the limit lifted; then RLIMIT_FSIZE = T and flush / sync_data / sync_all on the map, or sync_data / sync_all on the database object with a second small map (visited after the big one) open and updated; T ranges over the header offsets, every 128 KiB buffer-chunk boundary (-1, 0, +1, +1000) up to beyond the largest file, each file's end (-1, 0, +1) and half of it (quick: 60 thresholds per shape and call spread over that list, thorough: 250). Oracle: Ok under the limit => the files on disk hold the model state (independent decode + copy opened with the crate); Err => (i) reads while the limit is in force may return Err but never a wrong value, (ii) after lifting the limit get of every key, len and a full iteration equal the model, (iii) the next flush/sync returns Ok and the files on disk hold the model state -- in a third of the cases the database directory has a name that is not valid UTF-8; in every second case further updates (overwrite of an old key, new key, delete, in both maps) are made between the refused call and the retry, and the retry is another call kind --, also in the directory left behind when the process exits without running destructors (as by SIGKILL). evaluations = (shape, call, T, key type) cases. Non-trivial: T at which the call returned Err; distinct by (shape, call, T, key type)."
            .to_string()
    }
    fn assumptions(&self) -> Vec<String> {
        vec![
            "RLIMIT_FSIZE with SIGXFSZ ignored models a write refusal (EFBIG after a partial write); ENOSPC/EIO are assumed to travel the same error path".into(),
            "non-evicting buffers (PerMille(1000)) so that a lookup under the limit rarely needs a write-back".into(),
        ]
    }
    fn n_cases(&self, tier: Tier) -> u64 {
        n_thresholds(tier) * 4 * 5
    }
    fn timeout_s(&self, _tier: Tier) -> u64 {
        150
    }
    fn run_case(&self, tier: Tier, _seed: u64, index: u64, w: &WCtx) -> CaseOut {
        let mut out = CaseOut {
            index,
            evals: 1,
            profile: w.profile.clone(),
            ..Default::default()
        };
        let c = match case_of(tier, index, w) {
            Ok(c) => c,
            Err(f) => {
                out.failure = Some(f);
                return out;
            }
        };
        match run_c16(&c, w) {
            Ok(rep) => {
                if rep.has("call_err_under_limit") {
                    out.nontrivial.push(digest_of(&c));
                }
                out.labels = rep.labels;
                if index % 53 == 9 {
                    out.sample = Some(serde_json::to_value(&c).unwrap());
                }
            }
            Err(f) => {
                out.failure = Some(f);
                out.case = Some(serde_json::to_value(&c).unwrap());
            }
        }
        out
    }
    fn gen_case(&self, _tier: Tier, _seed: u64, _index: u64) -> Value {
        json!(null)
    }
    fn replay(&self, case: &Value, w: &WCtx) -> Result<Report, Failure> {
        let c: C16Case = serde_json::from_value(case.clone())
            .map_err(|e| Failure::new("infra", None, format!("bad replay file: {e}")))?;
        run_c16(&c, w)
    }
}
