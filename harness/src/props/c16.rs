//! C16 — a failed flush is reported and loses nothing (placeholder, see below)
pub fn child_main(_req: &str) -> i32 {
    2
}
