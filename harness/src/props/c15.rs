//! C15 — read-only calls have no side effects on contents or files.
use super::*;
use crate::gen::*;
use proptest::prelude::*;
use serde::{Deserialize, Serialize};

#[derive(Serialize, Deserialize, Clone, Debug)]
pub struct C15Case {
    /// update history producing the state (closed at its end)
    pub build: History,
    /// parameters used for the read-only session
    pub params: Params,
    /// read-only calls
    pub reads: Vec<Op>,
    /// the state is not built but taken from this golden image (files written by the released
    /// version); `build` is then the image's history and only provides key pool and key type
    #[serde(default)]
    pub golden: Option<String>,
}

pub struct C15;

fn build_cfg(tier: Tier, index: u64) -> HistCfg {
    let mut w = Weights::basic();
    w.get = 2;
    w.inc = 0;
    w.len = 0;
    w.is_empty = 0;
    w.put = 40;
    w.del = if index % 5 == 0 { 45 } else { 25 };
    let mut c = HistCfg {
        kts: Kt::ALL.to_vec(),
        key: KeyProfile::Medium,
        n_keys: if index % 5 == 0 { 1..=5 } else { 1..=60 },
        bufs: BufProfile::Plain,
        allow_lt8: true,
        max_buckets: 65536,
        ops: OpsCfg {
            w,
            val: if index % 11 == 0 { ValProfile::Big } else { ValProfile::Mixed },
            n_ops: tier.pick(0..=120, 0..=300),
            reopen_params: None,
            reopen_child: false,
            max_batch: 0,
            n_maps: 1,
        },
        obs: Obs::default(),
        target_pct: 40,
        prelude: Prelude::None,
        phases: false,
        special_keys: false,
        default_table: false,
        big_table: None,
        empty_mid: false,
        empty_end: false,
    };
    rare_regions(&mut c, index);
    if index % 50 == 7 {
        // a map that once held more than 128 KiB in both files and was emptied completely
        c.prelude = Prelude::Inflate { val_bytes: 300_000, key_bytes: 200_000 };
        c.empty_end = true;
        c.empty_mid = false;
    }
    c
}

fn reads_cfg(tier: Tier) -> OpsCfg {
    OpsCfg {
        w: Weights {
            put: 0,
            get: 30,
            del: 0,
            inc: 10,
            len: 5,
            is_empty: 3,
            strs: 0,
            bulk: 0,
            iter: 20,
            stats: 6,
            readfill: 4,
            flush: 5,
            sync: 6,
            dbsync: 3,
            handles: 4,
            reopen: 0,
            burst: 0,
        },
        val: ValProfile::Small,
        n_ops: tier.pick(20..=200, 20..=400),
        reopen_params: None,
        reopen_child: false,
        max_batch: 30,
        n_maps: 1,
    }
}

fn strategy(tier: Tier, index: u64) -> BoxedStrategy<C15Case> {
    if index % 20 == 9 {
        // read-only session (incl. flush / sync) on an image written by the released version
        let gh = super::c12::golden_histories();
        let (name, h) = gh[(index / 20) as usize % gh.len()].clone();
        let nk = h.maps[0].keys.len();
        let p0 = h.maps[0].params;
        let reads = proptest::collection::vec(op_strategy(&reads_cfg(tier), nk, p0), reads_cfg(tier).n_ops);
        return (reads, params_strategy(BufProfile::Plain, true, 65536))
            .prop_map(move |(reads, params)| C15Case {
                build: h.clone(),
                params,
                reads,
                golden: Some(name.clone()),
            })
            .boxed();
    }
    history_strategy(build_cfg(tier, index))
        .prop_flat_map(move |build| {
            let nk = build.maps[0].keys.len();
            let p0 = build.maps[0].params;
            let ps = prop_oneof![
                1 => Just(p0),
                2 => params_strategy(BufProfile::Any, true, 65536),
            ];
            // read-only alphabet: Get/Inc/Len/IsEmpty/Iter/Stats/ReadFill/Flush/Sync + bulk_get
            let reads = proptest::collection::vec(
                prop_oneof![
                    12 => op_strategy(&reads_cfg(tier), nk, p0),
                    1 => proptest::collection::vec(0..nk.max(1) as u32, 0..=30).prop_map(|ks| Op::BulkGet { ks }),
                    1 => (0..nk.max(1) as u32).prop_map(|k| Op::GetStr { k }),
                ],
                reads_cfg(tier).n_ops,
            );
            (Just(build), ps, reads)
        })
        .prop_map(|(build, params, reads)| {
            let (kb, vb) = size_bounds(&build.maps[0].keys, &build.ops);
            let (params, _) = sanitize_params_for(params, kb, vb, build.maps[0].params.buckets);
            C15Case { build, params, reads, golden: None }
        })
        .boxed()
}

fn run_c15(c: &C15Case, w: &WCtx) -> Result<Report, Failure> {
    let ctx = w.ctx();
    let r = guarded(&ctx, || {
        // 1. build the state and close
        let (model, mut rep) = if let Some(g) = &c.golden {
            let (files, exp, _h) = super::c12::load_golden(&w.verif_root, g)?;
            std::fs::create_dir_all(&ctx.dir).map_err(|e| Failure::new("infra", None, format!("mkdir: {e}")))?;
            super::c12::put_files(&ctx.dir, &files)?;
            let mut r = Report::default();
            r.bump("state_from_released_image");
            (super::c12::exp_model(&exp), r)
        } else {
            let mut e = Exec::new(&c.build, &ctx)?;
            e.run()?;
            let model = e.model(0).clone();
            let rep = e.rep.clone();
            drop(e);
            (model, rep)
        };
        let name = &c.build.maps[0].name;
        let b0 = crate::exec::read_files(&ctx.dir, name)
            .map_err(|e| Failure::new("infra", None, format!("read files: {e}")))?;
        let d0 = crate::decoder::decode(c.build.maps[0].kt, &b0[0], &b0[1], &b0[2]);
        let has_free = d0
            .key_file
            .free
            .iter()
            .chain(d0.val_file.free.iter())
            .any(|l| !l.is_empty());
        // 2. read-only session
        let h2 = History {
            maps: vec![MapSpec {
                name: name.clone(),
                kt: c.build.maps[0].kt,
                params: c.params,
                keys: c.build.maps[0].keys.clone(),
                late: false,
            }],
            ops: c.reads.clone(),
            obs: Obs::default(),
            excluded: 0,
            quiet_prefix: 0,
        };
        let nb = c.build.ops.len();
        let mut e2 = Exec::new(&h2, &ctx).map_err(|mut f| {
            f.msg = format!("read-only session: {}", f.msg);
            f
        })?;
        e2.seed_model(0, model);
        e2.run().map_err(|mut f| {
            f.op = f.op.map(|o| o + nb);
            f.msg = format!("read-only session: {}", f.msg);
            f
        })?;
        let rep2 = e2.rep.clone();
        drop(e2);
        let b1 = crate::exec::read_files(&ctx.dir, name)
            .map_err(|e| Failure::new("infra", None, format!("read files: {e}")))?;
        let names = ["htx", "key", "val"];
        for i in 0..3 {
            if b0[i] != b1[i] {
                let pos = b0[i].iter().zip(b1[i].iter()).position(|(a, b)| a != b);
                return Err(Failure::new(
                    "sideeffect",
                    Some(nb + c.reads.len()),
                    format!(
                        "the {} file changed during a read-only session: length {} -> {}, first differing byte at {:?}",
                        names[i],
                        b0[i].len(),
                        b1[i].len(),
                        pos
                    ),
                ));
            }
        }
        for (l, v) in rep2.labels {
            rep.add(&format!("ro_{l}"), v);
        }
        if has_free {
            rep.bump("state_has_free_slots");
        }
        Ok(rep)
    });
    w.cleanup(&ctx.dir);
    r
}

impl Prop for C15 {
    fn id(&self) -> &'static str {
        "C15"
    }
    fn rule(&self) -> String {
        "a state is produced by a seeded random update history (all key types, tables 1..65536 incl. < 8 and >= 128 buckets, maps emptied again - also maps that held more than 128 KiB in both files before they were emptied -, 40% bucket-targeted keys) and closed, or, in every 20th case, taken from one of the golden images written by the released version: bytes B0. The directory is reopened (same or freshly drawn parameters) and 20-200 read-only calls are issued: get of present/absent keys, includes_key, len, is_empty, bulk_get, get_string, every iterator flavour fully and partially consumed, all statistics calls, read_fill_buffer, flush/sync_data/sync_all on the unmodified map, db-level sync, handle clones; every result is compared with the model; after close the three files must equal B0 byte for byte (length and content). Non-trivial: the session has a full traversal and a lookup of an absent key and the state has free slots; distinct by case digest."
            .to_string()
    }
    fn n_cases(&self, tier: Tier) -> u64 {
        tier.pick(10000, 50000)
    }
    fn timeout_s(&self, tier: Tier) -> u64 {
        tier.pick(60, 120)
    }
    fn run_case(&self, tier: Tier, seed: u64, index: u64, w: &WCtx) -> CaseOut {
        let st = strategy(tier, index);
        run_generated(
            index,
            &st,
            case_seed(seed, "C15", index),
            600,
            w,
            |c: &C15Case| run_c15(c, w),
            |c, rep| {
                (
                    rep.has("ro_iter_full") && rep.has("ro_get_absent") && rep.has("state_has_free_slots"),
                    digest_of(c),
                )
            },
        )
    }
    fn gen_case(&self, tier: Tier, seed: u64, index: u64) -> Value {
        serde_json::to_value(draw(&strategy(tier, index), case_seed(seed, "C15", index))).unwrap_or(json!(null))
    }
    fn replay(&self, case: &Value, w: &WCtx) -> Result<Report, Failure> {
        let c: C15Case = serde_json::from_value(case.clone())
            .map_err(|e| Failure::new("infra", None, format!("bad replay file: {e}")))?;
        run_c15(&c, w)
    }
    fn reductions(&self, case: &Value) -> Vec<Value> {
        let mut out = Vec::new();
        if let Some(rs) = case.get("reads").and_then(|p| p.as_array()) {
            let n = rs.len();
            if n > 0 {
                for (a, b) in [(0, n / 2), (n / 2, n)] {
                    let mut c = case.clone();
                    let mut v = rs.clone();
                    v.drain(a..b);
                    c["reads"] = Value::Array(v);
                    out.push(c);
                }
            }
        }
        for hred in history_reductions(&case["build"]) {
            let mut c = case.clone();
            c["build"] = hred;
            out.push(c);
        }
        out
    }
}
