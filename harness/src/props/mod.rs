//! Property registry and the generic history-based property driver.
use crate::exec::{Exec, Failure, Report};
use crate::gen::{history_strategy, HistCfg};
use crate::runner::*;
use crate::types::*;
use serde_json::{json, Value};

pub mod c01;
pub mod c03;
pub mod c07;
pub mod c08;
pub mod c09;
pub mod c10;
pub mod c13;
pub mod c11;
pub mod c12;
pub mod c15;
pub mod c16;
pub mod c18;
pub mod hist_props;

pub fn all_ids() -> Vec<&'static str> {
    vec!["C01", "C02", "C03", "C04", "C05", "C06", "C07", "C08", "C09", "C10", "C11", "C12", "C13", "C14", "C15", "C16", "C17", "C18"]
}

pub fn get(id: &str) -> Option<Box<dyn Prop>> {
    match id {
        "C01" => Some(Box::new(c01::C01)),
        "C02" => Some(Box::new(hist_props::c02())),
        "C03" => Some(Box::new(c03::C03)),
        "C04" => Some(Box::new(hist_props::c04())),
        "C05" => Some(Box::new(hist_props::c05())),
        "C06" => Some(Box::new(hist_props::C06)),
        "C07" => Some(Box::new(c07::C07)),
        "C08" => Some(Box::new(c08::C08)),
        "C09" => Some(Box::new(c09::C09)),
        "C10" => Some(Box::new(c10::C10)),
        "C12" => Some(Box::new(c12::C12)),
        "C13" => Some(Box::new(c13::C13)),
        "C11" => Some(Box::new(c11::C11)),
        "C14" => Some(Box::new(hist_props::c14())),
        "C15" => Some(Box::new(c15::C15)),
        "C16" => Some(Box::new(c16::C16)),
        "C18" => Some(Box::new(c18::C18)),
        "C17" => Some(Box::new(hist_props::c17())),
        _ => None,
    }
}

/// run one history in a fresh scratch directory, panics caught
pub fn run_history(h: &History, w: &WCtx) -> Result<Report, Failure> {
    let ctx = w.ctx();
    let r = guarded(&ctx, || {
        let mut e = Exec::new(h, &ctx)?;
        e.run()?;
        Ok(e.rep.clone())
    });
    w.cleanup(&ctx.dir);
    r
}

pub fn digest_of<T: serde::Serialize>(c: &T) -> u64 {
    crate::runner::splitmix(crate::exec::fnv(serde_json::to_string(c).unwrap_or_default().as_bytes()))
}

/// candidates with parts of the op list removed (for parent-side minimisation of hangs)
pub fn history_reductions(case: &Value) -> Vec<Value> {
    let mut out = Vec::new();
    let ops = match case.get("ops").and_then(|o| o.as_array()) {
        Some(o) => o.clone(),
        None => return out,
    };
    let n = ops.len();
    if n == 0 {
        return out;
    }
    let mut chunk = (n + 1) / 2;
    loop {
        let mut start = 0;
        while start < n {
            let end = (start + chunk).min(n);
            let mut rest = Vec::new();
            rest.extend_from_slice(&ops[..start]);
            rest.extend_from_slice(&ops[end..]);
            if rest.len() < n {
                let mut c = case.clone();
                c["ops"] = Value::Array(rest);
                out.push(c);
            }
            start = end;
            if out.len() > 40 {
                return out;
            }
        }
        if chunk == 1 {
            break;
        }
        chunk = (chunk + 1) / 2;
    }
    out
}

/// a property decided by engine E1 alone: generator configuration + observers + labels
pub struct HistProp {
    pub id: &'static str,
    pub level: &'static str,
    pub rule: &'static str,
    pub assumptions: &'static [&'static str],
    pub cfg: fn(Tier, u64) -> HistCfg,
    pub n: fn(Tier) -> u64,
    pub nontrivial: fn(&History, &Report) -> bool,
    pub timeout: fn(Tier) -> u64,
    pub shrink_iters: u32,
}

impl HistProp {
    pub fn strategy(&self, tier: Tier, index: u64) -> proptest::strategy::BoxedStrategy<History> {
        history_strategy((self.cfg)(tier, index))
    }
}

impl Prop for HistProp {
    fn id(&self) -> &'static str {
        self.id
    }
    fn level(&self) -> &'static str {
        self.level
    }
    fn rule(&self) -> String {
        self.rule.to_string()
    }
    fn assumptions(&self) -> Vec<String> {
        self.assumptions.iter().map(|s| s.to_string()).collect()
    }
    fn n_cases(&self, tier: Tier) -> u64 {
        (self.n)(tier)
    }
    fn timeout_s(&self, tier: Tier) -> u64 {
        (self.timeout)(tier)
    }
    fn run_case(&self, tier: Tier, seed: u64, index: u64, w: &WCtx) -> CaseOut {
        let st = self.strategy(tier, index);
        let nt = self.nontrivial;
        let mut out = run_generated(
            index,
            &st,
            case_seed(seed, self.id, index),
            self.shrink_iters,
            w,
            |h: &History| run_history(h, w),
            |h, rep| (nt(h, rep), digest_of(h)),
        );
        out.excluded = out.labels.get("excluded_draws").copied().unwrap_or(0);
        out
    }
    fn gen_case(&self, tier: Tier, seed: u64, index: u64) -> Value {
        let st = self.strategy(tier, index);
        serde_json::to_value(draw(&st, case_seed(seed, self.id, index))).unwrap_or(json!(null))
    }
    fn replay(&self, case: &Value, w: &WCtx) -> Result<Report, Failure> {
        let h: History = serde_json::from_value(case.clone())
            .map_err(|e| Failure::new("infra", None, format!("bad replay file: {e}")))?;
        run_history(&h, w)
    }
    fn reductions(&self, case: &Value) -> Vec<Value> {
        history_reductions(case)
    }
}
