//! C09 — any key or value length fits its slot; neighbours are never overwritten.
use super::*;
use crate::decoder::{self, legal_slot_size, vu64_len};
use crate::dbx::open_map;
use serde::{Deserialize, Serialize};

pub struct C09;

const SWEEP_CHUNKS: u64 = 16;
const VAL_MAX: usize = (1 << 24) + (1 << 16);
const KEY_MAX: usize = 1 << 16;

#[derive(Serialize, Deserialize, Clone, Debug)]
pub enum C09Case {
    /// arithmetic sweep of value lengths [lo, hi] through the layout-probe hook
    ValSweep { lo: usize, hi: usize },
    /// arithmetic sweep of key lengths [lo, hi] x offset representatives
    KeySweep { lo: usize, hi: usize },
    /// end-to-end: value of this length between two sentinels, then one byte shorter / longer
    ValE2E { lens: Vec<u32> },
    /// end-to-end: key of this length between two sentinels
    KeyE2E { lens: Vec<u32> },
    /// end-to-end on an aged store: thousands of freed large slots, then the sentinel sequence
    ValE2EAged { lens: Vec<u32> },
    /// end-to-end on a store that held large records, was emptied completely, closed and reopened
    ValE2EEmptied { lens: Vec<u32> },
    KeyE2EEmptied { lens: Vec<u32> },
    /// a key record of this key length whose chain link is REWRITTEN wider by a delete: chain
    /// P -> D -> N in one bucket with D in a reused slot at the start of the key file and N beyond
    /// 128 KiB (or 16 KiB); deleting D makes P's link grow from one byte to three (two)
    KeyLinkWiden { lens: Vec<u32>, far: u32 },
}

/// offsets at both ends of every vu64 width, for the raw offset and for offset/8
fn offset_reps() -> Vec<u64> {
    let mut v: Vec<u64> = vec![0, 8, 192];
    for j in 1..=5u32 {
        let b = 1u64 << (7 * j);
        for x in [b - 8, b, b * 8 - 8, b * 8] {
            v.push(x & !7);
        }
    }
    v.push((1u64 << 40) & !7);
    v.sort();
    v.dedup();
    v
}

fn e2e_val_lengths(tier: Tier, seed: u64) -> Vec<u32> {
    let mut v: Vec<u32> = (0..=4200).collect();
    for j in 2..=8u32 {
        for d in -3i32..=3 {
            v.push((4096 * j as i32 + d) as u32);
        }
    }
    for base in [131072u32, 1 << 20, 1 << 24] {
        for d in -6i32..=3 {
            v.push((base as i32 + d) as u32);
        }
    }
    if tier == Tier::Thorough {
        let mut s = seed;
        for _ in 0..20000 {
            s = splitmix(s);
            let r = s % 100;
            let l = if r < 70 {
                4201 + (splitmix(s) % 60000)
            } else if r < 97 {
                64000 + (splitmix(s) % 2_000_000)
            } else {
                2_000_000 + (splitmix(s) % 15_000_000)
            };
            v.push(l as u32);
        }
    }
    v
}

fn e2e_key_lengths(tier: Tier, seed: u64) -> Vec<u32> {
    let mut v: Vec<u32> = (0..=4200).collect();
    for base in [16384u32, 65536] {
        for d in -12i32..=0 {
            v.push((base as i32 + d) as u32);
        }
    }
    if tier == Tier::Thorough {
        let mut s = seed ^ 0x55;
        for _ in 0..4000 {
            s = splitmix(s);
            v.push((4201 + s % 61000) as u32);
        }
    }
    v
}

const E2E_CHUNK: usize = 64;

fn cases(tier: Tier, seed: u64) -> Vec<C09Case> {
    let mut c = Vec::new();
    for j in 0..SWEEP_CHUNKS as usize {
        let per = VAL_MAX / SWEEP_CHUNKS as usize + 1;
        let lo = j * per;
        let hi = ((j + 1) * per - 1).min(VAL_MAX);
        c.push(C09Case::ValSweep { lo, hi });
    }
    for j in 0..SWEEP_CHUNKS as usize {
        let per = KEY_MAX / SWEEP_CHUNKS as usize + 1;
        let lo = j * per;
        let hi = ((j + 1) * per - 1).min(KEY_MAX);
        c.push(C09Case::KeySweep { lo, hi });
    }
    // big lengths first so that the long cases do not end up at the tail of the run
    let mut vl = e2e_val_lengths(tier, seed);
    vl.sort_by(|a, b| b.cmp(a));
    let (big, small): (Vec<u32>, Vec<u32>) = vl.into_iter().partition(|&l| l > 100_000);
    for ch in big.chunks(4) {
        c.push(C09Case::ValE2E { lens: ch.to_vec() });
    }
    for ch in small.chunks(E2E_CHUNK) {
        c.push(C09Case::ValE2E { lens: ch.to_vec() });
    }
    // aged store: the requested slot is larger than all (or all but a buried one) of the freed slots
    for ch in [1600u32, 2100, 3000, 4999, 5000, 5001, 5900, 6100, 9000].chunks(3) {
        c.push(C09Case::ValE2EAged { lens: ch.to_vec() });
    }
    c.push(C09Case::ValE2EEmptied { lens: vec![0, 15, 1000, 1100, 1500, 2990, 3000, 5000] });
    c.push(C09Case::KeyE2EEmptied { lens: vec![10, 880, 900, 1030, 2000] });
    // key lengths around the points where the record exactly fills its slot, for small and large classes
    for (far, lens) in [
        (200_000u32, (4u32..=13).collect::<Vec<u32>>()),
        (200_000, (116..=125).collect()),
        (200_000, (244..=254).collect()),
        (200_000, (370..=382).collect()),
        (200_000, (1010..=1022).collect()),
        (20_000, (4..=13).collect()),
        (20_000, (370..=382).collect()),
    ] {
        c.push(C09Case::KeyLinkWiden { lens, far });
    }
    let mut kl = e2e_key_lengths(tier, seed);
    kl.sort_by(|a, b| b.cmp(a));
    for ch in kl.chunks(E2E_CHUNK) {
        c.push(C09Case::KeyE2E { lens: ch.to_vec() });
    }
    c
}

/// independent statement of the record encodings
fn value_record_len(len: u64, slot: u64) -> u64 {
    vu64_len(slot / 8) as u64 + vu64_len(len) as u64 + len
}

fn key_record_len(klen: u64, voff: u64, noff: u64, slot: u64) -> u64 {
    vu64_len(slot / 8) as u64 + vu64_len(klen) as u64 + klen + vu64_len(voff / 8) as u64 + vu64_len(noff / 8) as u64
}

fn val_sweep(lo: usize, hi: usize, rep: &mut Report) -> Result<(u64, Vec<u64>), Failure> {
    let mut err: Option<String> = None;
    let mut n = 0u64;
    let mut nt: Vec<u64> = Vec::new();
    let mut prev_slot: Option<(usize, u32)> = None;
    #[cfg(not(feature = "hooks"))]
    let sweep = |_lo: usize, _hi: usize, _f: &mut dyn FnMut(usize, u32, u32, u32)| {};
    #[cfg(feature = "hooks")]
    let sweep = abyssiniandb::filedb::verif::sweep_value_slot_sizes;
    sweep(lo, hi, &mut |len, _enc, _piece, slot| {
        n += 1;
        let need = value_record_len(len as u64, slot as u64);
        if err.is_none() {
            if need > slot as u64 {
                err = Some(format!(
                    "value of {len} bytes: the record needs {need} bytes but the slot chosen for it has {slot}"
                ));
            } else if slot % 8 != 0 || !legal_slot_size(slot as u64) {
                err = Some(format!("value of {len} bytes: slot size {slot} is not a legal size class"));
            }
        }
        // the sweep runs downwards: prev is len+1
        if let Some((pl, ps)) = prev_slot {
            if ps != slot && pl == len + 1 {
                nt.push(len as u64);
            }
        }
        prev_slot = Some((len, slot));
    });
    if let Some(e) = err {
        return Err(Failure::new("slotsize", None, e));
    }
    rep.add("value_lengths_swept", n);
    Ok((n, nt))
}

fn key_sweep(lo: usize, hi: usize, rep: &mut Report) -> Result<(u64, Vec<u64>), Failure> {
    let offs = offset_reps();
    let mut err: Option<String> = None;
    let mut n = 0u64;
    let mut nt: Vec<u64> = Vec::new();
    let mut prev: std::collections::HashMap<(u64, u64), u32> = std::collections::HashMap::new();
    #[cfg(not(feature = "hooks"))]
    let sweep = |_k: &mut dyn Iterator<Item = usize>, _o: &[u64], _f: &mut dyn FnMut(usize, u64, u64, u32, u32, u32)| {};
    #[cfg(feature = "hooks")]
    let sweep = abyssiniandb::filedb::verif::sweep_key_slot_sizes;
    sweep(&mut (lo..=hi), &offs, &mut |klen, voff, noff, _enc, _piece, slot| {
        n += 1;
        let need = key_record_len(klen as u64, voff, noff, slot as u64);
        if err.is_none() {
            if need > slot as u64 {
                err = Some(format!(
                    "key of {klen} bytes with value offset {voff} and chain link {noff}: the record needs {need} bytes but the slot chosen for it has {slot}"
                ));
            } else if slot % 8 != 0 || !legal_slot_size(slot as u64) {
                err = Some(format!("key of {klen} bytes: slot size {slot} is not a legal size class"));
            }
        }
        if let Some(ps) = prev.insert((voff, noff), slot) {
            if ps != slot {
                nt.push(((klen as u64) << 20) ^ (voff.rotate_left(7)) ^ noff.rotate_left(33));
            }
        }
    });
    if let Some(e) = err {
        return Err(Failure::new("slotsize", None, e));
    }
    rep.add("key_length_offset_combinations_swept", n);
    Ok((n, nt))
}

/// three keys in three different buckets of an 8-bucket table; X has the requested length
fn three_keys(xlen: usize) -> (Vec<u8>, Vec<u8>, Vec<u8>) {
    let a = b"sentinel-A".to_vec();
    let ba = decoder::bucket_of(&a, 8);
    let mut b = b"sentinel-B0".to_vec();
    let mut i = 0u8;
    while decoder::bucket_of(&b, 8) == ba {
        i += 1;
        *b.last_mut().unwrap() = b'0' + i;
    }
    let bb = decoder::bucket_of(&b, 8);
    let mut seed = 0u32;
    loop {
        let x = if xlen == 0 { vec![] } else { pattern_bytes(xlen, seed) };
        let bx = decoder::bucket_of(&x, 8);
        if (bx != ba && bx != bb) || xlen == 0 || seed > 200 {
            return (a, x, b);
        }
        seed += 1;
    }
}

fn slot_bytes(val: &[u8], off: u64, size: u64) -> Vec<u8> {
    val[off as usize..(off + size) as usize].to_vec()
}

macro_rules! efail {
    ($($arg:tt)*) => { return Err(Failure::new("e2e", None, format!($($arg)*))) };
}

fn e2e_one(is_key: bool, len: u32, w: &WCtx) -> Result<(), Failure> {
    e2e_one_v(is_key, len, 0, w)
}

/// aged: 0 fresh store, 1 thousands of freed large slots, 2 emptied completely after it held large records (and reopened)
fn e2e_one_v(is_key: bool, len: u32, aged: u8, w: &WCtx) -> Result<(), Failure> {
    crate::exec::tick();
    let ctx = w.ctx();
    let r = guarded(&ctx, || {
        let what = if is_key { "key" } else { "value" };
        let (ka, kx, kb) = if is_key {
            three_keys(len as usize)
        } else {
            three_keys(12)
        };
        let va = pattern_bytes(40, 1);
        let vb = pattern_bytes(40, 2);
        let vx: Vec<u8> = if is_key { pattern_bytes(9, 3) } else { pattern_bytes(len as usize, 3) };
        let params = Params::plain(Buckets::BucketsSize(8));
        let mut db = abyssiniandb::open_file(&ctx.dir).map_err(|e| Failure::new("error", None, format!("open_file: {e}")))?;
        let mut m = open_map(&db, "s", Kt::Bytes, &params).map_err(|e| Failure::new("error", None, format!("open: {e}")))?;
        let io = |e: std::io::Error| Failure::new("error", None, format!("{what} length {len}: call returned Err: {e}"));
        if aged == 2 {
            // large value and key records, all deleted again (the last one deleted is a large one),
            // clean close, reopen: then the sentinel sequence refills the emptied store
            let mut ks = Vec::new();
            for (i, (kl, vl)) in [(12usize, 2000usize), (900, 30), (14, 1200), (1500, 3000), (11, 10), (2000, 1100)].iter().enumerate() {
                let k = pattern_bytes(*kl, 500 + i as u32);
                m.put(&k, &pattern_bytes(*vl, 600 + i as u32)).map_err(io)?;
                ks.push(k);
            }
            for k in ks.iter() {
                m.delete(k).map_err(io)?;
            }
            if m.len().map_err(io)? != 0 {
                efail!("{what} length {len}: the store is not empty after deleting everything");
            }
            drop(m);
            drop(db);
            db = abyssiniandb::open_file(&ctx.dir).map_err(|e| Failure::new("error", None, format!("open_file: {e}")))?;
            m = open_map(&db, "s", Kt::Bytes, &params).map_err(|e| Failure::new("error", None, format!("open: {e}")))?;
        }
        // aged store: 9000 entries of ~1.1-1.5 KB (+ one of 6000 bytes freed first), every second
        // one deleted: thousands of slots on the shared large free list
        let mut aged_live: Vec<(Vec<u8>, Vec<u8>)> = Vec::new();
        if aged == 1 {
            let kbig = format!("aged-big").into_bytes();
            m.put(&kbig, &pattern_bytes(6000, 77)).map_err(io)?;
            let mut all = Vec::new();
            for i in 0..9000u32 {
                let k = format!("aged-{i:05}").into_bytes();
                let v = pattern_bytes(1100 + (i as usize % 4) * 128, i);
                m.put(&k, &v).map_err(io)?;
                all.push((k, v));
            }
            m.delete(&kbig).map_err(io)?;
            for (i, (k, v)) in all.into_iter().enumerate() {
                if i % 2 == 0 {
                    m.delete(&k).map_err(io)?;
                } else {
                    aged_live.push((k, v));
                }
            }
        }
        m.put(&ka, &va).map_err(io)?;
        m.put(&kx, &vx).map_err(io)?;
        m.put(&kb, &vb).map_err(io)?;
        // variants of X's value: as is, one byte shorter, one byte longer (values); for keys the
        // value of X is rewritten with other lengths so that the key record is rewritten in place
        let variants: Vec<Vec<u8>> = if is_key {
            vec![vx.clone(), pattern_bytes(200, 4), pattern_bytes(3, 5)]
        } else {
            let mut v = vec![vx.clone()];
            if len > 0 {
                v.push(pattern_bytes(len as usize - 1, 6));
            }
            v.push(pattern_bytes(len as usize + 1, 7));
            v.push(vx.clone());
            v
        };
        let mut sent: Option<(Vec<u8>, Vec<u8>)> = None;
        for (vi, cur) in variants.iter().enumerate() {
            if vi > 0 {
                m.put(&kx, cur).map_err(io)?;
            }
            for (k, v, n) in [(&ka, &va, "sentinel A"), (&kx, cur, "the entry"), (&kb, &vb, "sentinel B")] {
                let got = m.get(k).map_err(io)?;
                if got.as_ref() != Some(v) {
                    efail!(
                        "{what} length {len} (variant {vi}): {n} reads back differently: got {:?} bytes, expected {}",
                        got.map(|g| g.len()),
                        v.len()
                    );
                }
            }
            for (k, v) in aged_live.iter() {
                let got = m.get(k).map_err(io)?;
                if got.as_ref() != Some(v) {
                    efail!(
                        "{what} length {len} (variant {vi}): the unrelated entry {} was altered by writing the middle entry (got {:?} bytes, expected {})",
                        String::from_utf8_lossy(k),
                        got.map(|g| g.len()),
                        v.len()
                    );
                }
            }
            m.flush().map_err(io)?;
            let f = crate::exec::read_files(&ctx.dir, "s").map_err(|e| Failure::new("infra", None, format!("read: {e}")))?;
            let d = decoder::decode(Kt::Bytes, &f[0], &f[1], &f[2]);
            if let Some(c) = d.structure.first().or(d.header.first()).or(d.tiling.first()) {
                efail!("{what} length {len} (variant {vi}): decoded image: {c}");
            }
            let ea = d.entries.iter().find(|e| e.key == ka);
            let eb = d.entries.iter().find(|e| e.key == kb);
            let ex = d.entries.iter().find(|e| e.key == kx);
            let (ea, eb, ex) = match (ea, eb, ex) {
                (Some(a), Some(b), Some(x)) => (a, b, x),
                _ => efail!("{what} length {len} (variant {vi}): an entry is missing in the decoded image"),
            };
            if ex.key_enc > ex.key_size || ex.val_enc > ex.val_size {
                efail!("{what} length {len}: record exceeds its slot");
            }
            if ex.value.as_ref() != Some(cur) {
                efail!("{what} length {len} (variant {vi}): bytes on disk differ from the value put");
            }
            let sa = slot_bytes(&f[2], ea.val_off, ea.val_size);
            let sb = slot_bytes(&f[2], eb.val_off, eb.val_size);
            if let Some((pa, pb)) = &sent {
                if *pa != sa || *pb != sb {
                    efail!("{what} length {len} (variant {vi}): the bytes of a sentinel's value slot changed while only the middle entry was written");
                }
            }
            sent = Some((sa, sb));
        }
        Ok(Report::default())
    });
    w.cleanup(&ctx.dir);
    r.map(|_| ())
}

fn link_widen_one(len: u32, far: u32, w: &WCtx) -> Result<bool, Failure> {
    crate::exec::tick();
    let ctx = w.ctx();
    let r = guarded(&ctx, || {
        let io = |e: std::io::Error| Failure::new("error", None, format!("key length {len}: call returned Err: {e}"));
        let db = abyssiniandb::open_file(&ctx.dir).map_err(|e| Failure::new("error", None, format!("open_file: {e}")))?;
        let mut m = open_map(&db, "s", Kt::Bytes, &Params::plain(Buckets::BucketsSize(1))).map_err(|e| Failure::new("error", None, format!("open: {e}")))?;
        let mut model: std::collections::BTreeMap<Vec<u8>, Vec<u8>> = std::collections::BTreeMap::new();
        let mut put = |m: &mut Box<dyn crate::dbx::MapH>, model: &mut std::collections::BTreeMap<Vec<u8>, Vec<u8>>, k: Vec<u8>, v: Vec<u8>| -> Result<(), Failure> {
            m.put(&k, &v).map_err(io)?;
            model.insert(k, v);
            Ok(())
        };
        // A takes the first slot of the key file; fillers push the end beyond `far`
        let a = b"AAAA".to_vec();
        put(&mut m, &mut model, a.clone(), vec![1])?;
        let mut i = 0u32;
        let mut grown = 0u32;
        while grown < far {
            let l = 40_000u32.min(far - grown).max(500);
            // values of 300 bytes: the value file passes 1 KiB, so that later value offsets need the
            // two bytes the slot-size estimate assumes (no slack from that field)
            put(&mut m, &mut model, pattern_bytes(l as usize, 7000 + i), pattern_bytes(300, i))?;
            grown += l;
            i += 1;
        }
        let n = b"NNNNNNNN-far-successor".to_vec();
        put(&mut m, &mut model, n.clone(), pattern_bytes(9, 1))?;
        // D reuses A's slot at the start of the file and links to N
        m.delete(&a).map_err(io)?;
        model.remove(&a);
        let d = b"DDDD".to_vec();
        put(&mut m, &mut model, d.clone(), vec![3])?;
        // P: the key of the requested length, linked to D by a one-byte link
        let p = pattern_bytes(len as usize, 4242);
        put(&mut m, &mut model, p.clone(), pattern_bytes(5, 2))?;
        // one more record right behind P, then the delete that widens P's link
        let q = b"QQQQ-neighbour".to_vec();
        put(&mut m, &mut model, q.clone(), pattern_bytes(6, 3))?;
        m.flush().map_err(io)?;
        let f0 = crate::exec::read_files(&ctx.dir, "s").map_err(|e| Failure::new("infra", None, format!("read: {e}")))?;
        let d0 = decoder::decode(Kt::Bytes, &f0[0], &f0[1], &f0[2]);
        // spare bytes of P's slot vs the bytes its link will grow by
        let spare = d0.entries.iter().find(|e| e.key == p).map(|e| e.key_size.saturating_sub(e.key_enc)).unwrap_or(99);
        let doff = d0.entries.iter().find(|e| e.key == d).map(|e| e.key_off).unwrap_or(0);
        let noff = d0.entries.iter().find(|e| e.key == n).map(|e| e.key_off).unwrap_or(0);
        let widen = (vu64_len(noff / 8) as u64).saturating_sub(vu64_len(doff / 8) as u64);
        let tight = widen > 0 && spare < widen;
        let near = doff < 1024;
        m.delete(&d).map_err(io)?;
        model.remove(&d);
        // the neighbour is rewritten too
        put(&mut m, &mut model, q.clone(), pattern_bytes(300, 4))?;
        for (k, v) in model.iter() {
            let got = m.get(k).map_err(io)?;
            if got.as_ref() != Some(v) {
                efail!("key length {len}: after the delete that widens the chain link of the {len}-byte key, the key of {} bytes reads back {:?} bytes, expected {}", k.len(), got.map(|g| g.len()), v.len());
            }
        }
        m.flush().map_err(io)?;
        let f = crate::exec::read_files(&ctx.dir, "s").map_err(|e| Failure::new("infra", None, format!("read: {e}")))?;
        let dd = decoder::decode(Kt::Bytes, &f[0], &f[1], &f[2]);
        if let Some(c) = dd.structure.first().or(dd.header.first()).or(dd.tiling.first()) {
            efail!("key length {len}: decoded image after the link-widening delete: {c}");
        }
        if dd.contents() != model {
            efail!("key length {len}: decoded contents differ from the model after the link-widening delete");
        }
        if dd.entries.iter().any(|e| e.key_enc > e.key_size) {
            efail!("key length {len}: a key record exceeds its slot");
        }
        drop(m);
        drop(db);
        let mut rr = Report::default();
        if tight && near {
            rr.bump("link_widened_on_exactly_full_record");
        }
        Ok(rr)
    });
    w.cleanup(&ctx.dir);
    r.map(|rr| rr.has("link_widened_on_exactly_full_record"))
}

fn run_c09(c: &C09Case, w: &WCtx) -> Result<(Report, u64, Vec<u64>), Failure> {
    let mut rep = Report::default();
    let ctx0 = crate::exec::Ctx {
        dir: w.scratch.clone(),
        exe: None,
        cur_op: std::cell::Cell::new(0),
    };
    match c {
        C09Case::ValSweep { lo, hi } => {
            let mut res = None;
            let r = guarded(&ctx0, || {
                let mut r = Report::default();
                res = Some(val_sweep(*lo, *hi, &mut r)?);
                Ok(r)
            })?;
            let (n, nt) = res.unwrap();
            Ok((r, n, nt))
        }
        C09Case::KeySweep { lo, hi } => {
            let mut res = None;
            let r = guarded(&ctx0, || {
                let mut r = Report::default();
                res = Some(key_sweep(*lo, *hi, &mut r)?);
                Ok(r)
            })?;
            let (n, nt) = res.unwrap();
            Ok((r, n, nt))
        }
        C09Case::KeyLinkWiden { lens, far } => {
            let mut nt = Vec::new();
            for &l in lens {
                let tight = link_widen_one(l, *far, w).map_err(|mut f| {
                    f.msg = format!("[link widening, far = {far}] {}", f.msg);
                    f
                })?;
                if tight {
                    nt.push((3u64 << 40) | ((*far as u64) << 12) | l as u64);
                    rep.bump("link_widened_on_exactly_full_record");
                }
                rep.bump("link_widening_scenarios");
            }
            Ok((rep, lens.len() as u64, nt))
        }
        C09Case::ValE2E { lens } | C09Case::KeyE2E { lens } | C09Case::ValE2EAged { lens } | C09Case::ValE2EEmptied { lens } | C09Case::KeyE2EEmptied { lens } => {
            let is_key = matches!(c, C09Case::KeyE2E { .. } | C09Case::KeyE2EEmptied { .. });
            let aged: u8 = match c {
                C09Case::ValE2EAged { .. } => 1,
                C09Case::ValE2EEmptied { .. } | C09Case::KeyE2EEmptied { .. } => 2,
                _ => 0,
            };
            let mut nt = Vec::new();
            for &l in lens {
                e2e_one_v(is_key, l, aged, w).map_err(|mut f| {
                    f.msg = format!("[end-to-end {} length {l}] {}", if is_key { "key" } else { "value" }, f.msg);
                    f
                })?;
                // non-trivial: slot(L) != slot(L+1)
                let differs = if is_key {
                    // key record with 2-byte value offset and 1-byte link
                    let need = |k: u64| 1 + vu64_len(k) as u64 + k + 2 + 1;
                    crate::exec::slot_class_of_value(0) > 0 && slot_for(need(l as u64)) != slot_for(need(l as u64 + 1))
                } else {
                    crate::exec::slot_class_of_value(l as usize) != crate::exec::slot_class_of_value(l as usize + 1)
                };
                if differs {
                    nt.push(((is_key as u64) << 40) | l as u64);
                }
                rep.bump(if is_key { "e2e_key_lengths" } else { "e2e_value_lengths" });
            }
            Ok((rep, lens.len() as u64, nt))
        }
    }
}

fn slot_for(need: u64) -> u64 {
    for c in decoder::CLASSES[..15].iter() {
        if need + 1 <= *c as u64 {
            return *c as u64;
        }
    }
    ((need + 2 + 128) / 128) * 128
}

impl Prop for C09 {
    fn id(&self) -> &'static str {
        "C09"
    }
    fn rule(&self) -> String {
        "(a) arithmetic, exhaustive, no I/O, through the layout-probe hook that calls the crate's own encoded_piece_size + roundup: every value length 0..=2^24+2^16 and every key length 0..=2^16 x every pair of 24 offset representatives (both ends of each vu64 width for the raw offset and for offset/8); oracle: independently computed record length (size field of the chosen slot + length field + payload [+ offset fields]) <= slot, slot a legal size class. (b) end to end: for every length 0..=4200, +-3 around 4 KiB*j (j<=8), around 128 KiB, 1 MiB and 16 MiB (values) / up to 64 KiB (keys) [thorough: + 24000 random lengths]: sentinel A, the entry, sentinel B in three different buckets, then the entry's value overwritten one byte shorter, one byte longer and back (keys: value rewritten with other lengths); nine lengths are also stored on an AGED store (9000 entries of 1.1-1.5 KB, every second one deleted: thousands of freed large slots) where all surviving entries are re-read after every write, and eight value / five key lengths on a store that held large value and key records, was EMPTIED completely, closed and reopened; LINK WIDENING: for key lengths around the points where a record exactly fills its slot (classes 16, 128, 256, 384, 1024) a chain P -> D -> N is built in a one-bucket table with D in a reused slot at the start of the key file and N beyond 128 KiB (16 KiB), then D is deleted so that P's stored link grows from one byte to three (two): every entry reads back, decode clean, no record exceeds its slot (label link_widened_on_exactly_full_record counts the cases in which P's slot had fewer spare bytes than the link grew by); oracle: all three read back byte for byte, the independent decoder finds the record inside its slot with exactly the bytes put, structure and tiling clean, and the raw bytes of both sentinels' value slots never change. evaluations = swept lengths/combinations + end-to-end lengths. Non-trivial: a length L whose slot differs from that of L+1 (distinct by L)."
            .to_string()
    }
    fn assumptions(&self) -> Vec<String> {
        vec!["the arithmetic sweep trusts that write_piece uses exactly encoded_piece_size + roundup (the hook calls the same functions); the end-to-end sweep does not".into()]
    }
    fn n_cases(&self, tier: Tier) -> u64 {
        cases(tier, 0).len() as u64
    }
    fn timeout_s(&self, tier: Tier) -> u64 {
        tier.pick(120, 300)
    }
    fn exhaustive(&self, _tier: Tier) -> bool {
        true
    }
    fn run_case(&self, tier: Tier, seed: u64, index: u64, w: &WCtx) -> CaseOut {
        let cs = cases(tier, seed);
        let c = &cs[index as usize % cs.len()];
        let mut out = CaseOut {
            index,
            profile: w.profile.clone(),
            ..Default::default()
        };
        match run_c09(c, w) {
            Ok((rep, n, nt)) => {
                out.evals = n;
                out.nontrivial = nt;
                out.labels = rep.labels;
                if matches!(c, C09Case::ValE2E { .. } | C09Case::KeyE2E { .. } | C09Case::ValE2EAged { .. }) && out.index % 40 == 35 {
                    out.sample = Some(serde_json::to_value(c).unwrap());
                }
                if matches!(c, C09Case::ValSweep { .. } | C09Case::KeySweep { .. }) && (index == 0 || index == SWEEP_CHUNKS) {
                    out.sample = Some(serde_json::to_value(c).unwrap());
                }
            }
            Err(f) => {
                out.evals = 1;
                // narrow an end-to-end chunk down to the failing length
                let mut case = serde_json::to_value(c).unwrap();
                if let Some(l) = f.msg.split("length ").nth(1).and_then(|s| s.split(']').next()).and_then(|s| s.trim().parse::<u32>().ok()) {
                    case = match c {
                        C09Case::ValE2E { .. } => serde_json::to_value(C09Case::ValE2E { lens: vec![l] }).unwrap(),
                        C09Case::KeyE2E { .. } => serde_json::to_value(C09Case::KeyE2E { lens: vec![l] }).unwrap(),
                        C09Case::ValE2EAged { .. } => serde_json::to_value(C09Case::ValE2EAged { lens: vec![l] }).unwrap(),
                        _ => case,
                    };
                }
                out.failure = Some(f);
                out.case = Some(case);
            }
        }
        out
    }
    fn gen_case(&self, tier: Tier, seed: u64, index: u64) -> Value {
        let cs = cases(tier, seed);
        serde_json::to_value(&cs[index as usize % cs.len()]).unwrap()
    }
    fn replay(&self, case: &Value, w: &WCtx) -> Result<Report, Failure> {
        let c: C09Case = serde_json::from_value(case.clone())
            .map_err(|e| Failure::new("infra", None, format!("bad replay file: {e}")))?;
        run_c09(&c, w).map(|x| x.0)
    }
    fn summarize(&self, _extras: &[Value]) -> Option<Value> {
        Some(json!({"exhaustive_part": "arithmetic sweep (a) is complete in both tiers; the end-to-end sweep (b) is a fixed list of lengths"}))
    }
}
