//! C13 — opening files as the wrong key type or with foreign signatures is refused.
use super::*;
use crate::dbx::open_map;
use crate::exec::{file_names, read_files};
use serde::{Deserialize, Serialize};

pub struct C13;

#[derive(Serialize, Deserialize, Clone, Debug)]
pub enum C13Case {
    /// files created for `t` (all three: pos 3; only htx/key/val: pos 0/1/2), the rest for `u`; opened as `u`
    /// (`empty`: the maps were only created, never updated)
    Pair { t: Kt, u: Kt, pos: u8, #[serde(default)] empty: bool },
    /// signature byte `byte` (0..16) of file `file` (0 htx, 1 key, 2 val) of a `kt` map replaced by each of `values`
    Mut { kt: Kt, file: u8, byte: u8, values: Vec<u8>, #[serde(default)] empty: bool },
    /// file `file` of a `kt` map replaced by `len` bytes of a foreign format
    Foreign { kt: Kt, file: u8, len: u32, empty: bool },
    /// files of a `t` map of which the files in `missing` (bit 0 htx, 1 key, 2 val) are absent
    /// (or, with `zero_len`, present but empty), opened as `u`
    Missing { t: Kt, u: Kt, missing: u8, zero_len: bool, empty: bool },
    /// file `file` of a `kt` map with its whole header (`all`: the whole file) zeroed, same length
    Zeroed { kt: Kt, file: u8, all: bool, buckets: u64 },
}

fn is_d7(t: Kt, u: Kt) -> bool {
    matches!((t, u), (Kt::U64, Kt::Vu64) | (Kt::Vu64, Kt::U64))
}

fn mutation_values(tier: Tier, orig: u8) -> Vec<u8> {
    match tier {
        Tier::Thorough => (0..=255u8).filter(|&v| v != orig).collect(),
        Tier::Quick => {
            let mut v: Vec<u8> = vec![
                orig.wrapping_add(1),
                orig.wrapping_sub(1),
                orig ^ 0x20,
                0,
                0xFF,
                b' ',
                b'0',
                b'_',
                b'u',
                b'i',
                b's',
                b'b',
                b'K',
                b'V',
                b'H',
                b'k',
            ];
            for b in 0..8 {
                v.push(orig ^ (1 << b));
            }
            v.sort();
            v.dedup();
            v.retain(|&x| x != orig);
            v
        }
    }
}

fn sig_byte(kt: Kt, file: u8, byte: u8) -> u8 {
    if byte < 8 {
        let m: &[u8; 8] = match file {
            0 => b"abysdbH\0",
            1 => b"abysdbK\0",
            _ => b"abysdbV\0",
        };
        m[byte as usize]
    } else {
        kt.signature()[byte as usize - 8]
    }
}

fn cases(tier: Tier) -> (Vec<C13Case>, u64) {
    let mut c = Vec::new();
    let mut excluded = 0;
    for t in Kt::ALL {
        for u in Kt::ALL {
            if t == u {
                continue;
            }
            for pos in 0..4u8 {
                for empty in [false, true] {
                    if is_d7(t, u) {
                        excluded += 1;
                        continue;
                    }
                    c.push(C13Case::Pair { t, u, pos, empty });
                }
            }
        }
    }
    for t in Kt::ALL {
        for u in Kt::ALL {
            if t == u || is_d7(t, u) {
                continue;
            }
            for missing in 1..7u8 {
                for zero_len in [false, true] {
                    c.push(C13Case::Missing { t, u, missing, zero_len, empty: (missing + zero_len as u8) % 2 == 0 });
                }
            }
        }
    }
    for kt in Kt::ALL {
        for file in 0..3u8 {
            for byte in 0..16u8 {
                for empty in [false, true] {
                    c.push(C13Case::Mut {
                        kt,
                        file,
                        byte,
                        values: mutation_values(tier, sig_byte(kt, file, byte)),
                        empty,
                    });
                }
            }
            for (all, buckets) in [(false, 8u64), (true, 8), (false, 1024), (true, 1024)] {
                c.push(C13Case::Zeroed { kt, file, all, buckets });
            }
            for len in [1u32, 8, 16, 100, 127, 128, 191, 192, 193, 4096] {
                for empty in [false, true] {
                    c.push(C13Case::Foreign { kt, file, len, empty });
                }
            }
        }
    }
    (c, excluded)
}

fn some_key(kt: Kt, i: u64) -> Vec<u8> {
    match kt {
        Kt::U64 | Kt::I64 => (1000 + i * 7919).to_le_bytes().to_vec(),
        Kt::Vu64 => crate::decoder::vu64_encode(1000 + i * 7919),
        _ => format!("key-{i}").into_bytes(),
    }
}

/// build a small map of type kt (name "x") and return its three files
fn base_image(kt: Kt, empty: bool, w: &WCtx) -> Result<[Vec<u8>; 3], Failure> {
    base_image_n(kt, empty, 8, w)
}

fn base_image_n(kt: Kt, empty: bool, buckets: u64, w: &WCtx) -> Result<[Vec<u8>; 3], Failure> {
    let d = w.fresh_dir();
    let r = (|| {
        let db = abyssiniandb::open_file(&d).map_err(|e| Failure::new("infra", None, format!("open_file: {e}")))?;
        let mut m = open_map(&db, "x", kt, &Params::plain(Buckets::BucketsSize(buckets)))
            .map_err(|e| Failure::new("infra", None, format!("open: {e}")))?;
        if !empty {
            for i in 0..5u64 {
                m.put(&some_key(kt, i), format!("value {i}").as_bytes())
                    .map_err(|e| Failure::new("infra", None, format!("put: {e}")))?;
            }
            m.delete(&some_key(kt, 3))
                .map_err(|e| Failure::new("infra", None, format!("delete: {e}")))?;
        }
        drop(m);
        drop(db);
        read_files(&d, "x").map_err(|e| Failure::new("infra", None, format!("read: {e}")))
    })();
    w.cleanup(&d);
    r
}

/// write the files, try to open as `as_kt`, classify
fn attempt(files: &[Vec<u8>; 3], as_kt: Kt, w: &WCtx, what: &str) -> Result<(), Failure> {
    attempt_p(files, [true; 3], 8, as_kt, w, what)
}

/// `present[i] == false`: file i is not written at all (absent)
fn attempt_p(files: &[Vec<u8>; 3], present: [bool; 3], buckets: u64, as_kt: Kt, w: &WCtx, what: &str) -> Result<(), Failure> {
    crate::exec::tick();
    let d = w.fresh_dir();
    let names = file_names("x");
    for i in 0..3 {
        if present[i] {
            std::fs::write(d.join(&names[i]), &files[i]).map_err(|e| Failure::new("infra", None, format!("write: {e}")))?;
        }
    }
    crate::runner::quiet_panics(true);
    // three attempts through the same database object (the third through a clone of it): a refusal
    // must not leave anything behind that makes a later attempt succeed
    let res = std::panic::catch_unwind(std::panic::AssertUnwindSafe(|| -> Result<Option<String>, String> {
        let db = abyssiniandb::open_file(&d).map_err(|e| format!("open_file: {e}"))?;
        for round in 0..3 {
            let dbh = db.clone();
            let r = std::panic::catch_unwind(std::panic::AssertUnwindSafe(|| {
                match open_map(&dbh, "x", as_kt, &Params::plain(Buckets::BucketsSize(buckets))) {
                    Err(_) => None,
                    Ok(mut m) => {
                        // the open was accepted: show what a lookup would return
                        let g = std::panic::catch_unwind(std::panic::AssertUnwindSafe(|| {
                            m.get(&some_key(as_kt, 0)).map(|v| v.map(|b| String::from_utf8_lossy(&b).to_string()))
                        }));
                        Some(match g {
                            Ok(g) => format!("{:?}", g),
                            Err(_) => "a panic".to_string(),
                        })
                    }
                }
            }));
            if let Ok(Some(l)) = r {
                return Ok(Some(if round == 0 { l } else { format!("{l}, at attempt {} through the same database object", round + 1) }));
            }
        }
        Ok(None)
    }));
    crate::runner::quiet_panics(false);
    let mut after_v: Vec<Option<Vec<u8>>> = Vec::new();
    for i in 0..3 {
        after_v.push(std::fs::read(d.join(&names[i])).ok());
    }
    // an absent file may be created by the attempt, and a zero-length file is, by the crate's
    // documented convention, a file still to be created (it carries no signature to respect):
    // both are outside the statement's premise and are not compared
    let keep = |i: usize| present[i] && !files[i].is_empty();
    let after: std::io::Result<[Vec<u8>; 3]> = Ok([
        if keep(0) { after_v[0].clone().unwrap_or_default() } else { files[0].clone() },
        if keep(1) { after_v[1].clone().unwrap_or_default() } else { files[1].clone() },
        if keep(2) { after_v[2].clone().unwrap_or_default() } else { files[2].clone() },
    ]);
    w.cleanup(&d);
    match res {
        Ok(Ok(Some(lookup))) => {
            return Err(Failure::new(
                "accepted",
                None,
                format!("{what}: the open was accepted (a lookup returned {lookup}) instead of being refused"),
            ))
        }
        Ok(Ok(None)) | Err(_) => {}
        Ok(Err(e)) => return Err(Failure::new("infra", None, e)),
    }
    let after = after.map_err(|e| Failure::new("infra", None, format!("read after: {e}")))?;
    let fnm = ["htx", "key", "val"];
    for i in 0..3 {
        if after[i] != files[i] {
            return Err(Failure::new(
                "modified",
                None,
                format!(
                    "{what}: the open was refused but the {} file changed (length {} -> {})",
                    fnm[i],
                    files[i].len(),
                    after[i].len()
                ),
            ));
        }
    }
    Ok(())
}

fn run_c13(c: &C13Case, w: &WCtx) -> Result<(Report, u64), Failure> {
    let mut rep = Report::default();
    match c {
        C13Case::Pair { t, u, pos, empty } => {
            let ft = base_image(*t, *empty, w)?;
            let fu = base_image(*u, *empty, w)?;
            let mut files = fu.clone();
            if *pos == 3 {
                files = ft.clone();
            } else {
                files[*pos as usize] = ft[*pos as usize].clone();
            }
            let what = format!(
                "{} of a{} {} map, rest of a {} map, opened as {}",
                ["only the .htx file", "only the .key file", "only the .val file", "all three files"][*pos as usize],
                if *empty { "n empty (created-only)" } else { "" },
                t.name(),
                u.name(),
                u.name()
            );
            attempt(&files, *u, w, &what)?;
            rep.bump("type_pair_cases");
            Ok((rep, 1))
        }
        C13Case::Foreign { kt, file, len, empty } => {
            let mut files = base_image(*kt, *empty, w)?;
            let mut foreign = b"SQLite format 3\0".to_vec();
            while foreign.len() < *len as usize {
                let b = (foreign.len() * 7 + 13) as u8;
                foreign.push(b);
            }
            foreign.truncate(*len as usize);
            files[*file as usize] = foreign;
            let what = format!(
                "{}{} map whose .{} file is replaced by {} bytes of a foreign format",
                if *empty { "empty " } else { "" },
                kt.name(),
                ["htx", "key", "val"][*file as usize],
                len
            );
            attempt(&files, *kt, w, &what)?;
            rep.bump("foreign_file_cases");
            Ok((rep, 1))
        }
        C13Case::Missing { t, u, missing, zero_len, empty } => {
            let mut files = base_image(*t, *empty, w)?;
            let mut present = [true; 3];
            for i in 0..3 {
                if missing & (1 << i) != 0 {
                    if *zero_len {
                        files[i] = Vec::new();
                    } else {
                        present[i] = false;
                    }
                }
            }
            let what = format!(
                "files of a{} {} map of which {} {} (mask htx=1,key=2,val=4: {}), opened as {}",
                if *empty { "n empty" } else { "" },
                t.name(),
                if *zero_len { "some are zero-length" } else { "some are absent" },
                "",
                missing,
                u.name()
            );
            attempt_p(&files, present, 8, *u, w, &what)?;
            rep.bump("missing_file_cases");
            Ok((rep, 1))
        }
        C13Case::Zeroed { kt, file, all, buckets } => {
            let mut files = base_image_n(*kt, false, *buckets, w)?;
            let hl = if *file == 0 { 128 } else { 192 };
            let f = &mut files[*file as usize];
            let n = if *all { f.len() } else { hl.min(f.len()) };
            for b in f.iter_mut().take(n) {
                *b = 0;
            }
            let what = format!(
                "{} map ({} buckets) whose .{} file has its {} zeroed (length unchanged)",
                kt.name(),
                buckets,
                ["htx", "key", "val"][*file as usize],
                if *all { "whole content" } else { "header" }
            );
            attempt_p(&files, [true; 3], *buckets, *kt, w, &what)?;
            rep.bump("zeroed_header_cases");
            Ok((rep, 1))
        }
        C13Case::Mut { kt, file, byte, values, empty } => {
            let base = base_image(*kt, *empty, w)?;
            let mut n = 0;
            for &v in values {
                let mut files = base.clone();
                let orig = files[*file as usize][*byte as usize];
                if orig == v {
                    continue;
                }
                files[*file as usize][*byte as usize] = v;
                let what = format!(
                    "{}{} map, signature byte {} of the .{} file changed from {:#04x} to {:#04x}",
                    if *empty { "empty " } else { "" },
                    kt.name(),
                    byte,
                    ["htx", "key", "val"][*file as usize],
                    orig,
                    v
                );
                attempt(&files, *kt, w, &what)?;
                n += 1;
            }
            rep.add("signature_mutations", n);
            Ok((rep, n))
        }
    }
}

impl Prop for C13 {
    fn id(&self) -> &'static str {
        "C13"
    }
    fn rule(&self) -> String {
        "enumeration: (1) every ordered pair (T,U) of distinct key types x four file positions (all three files written for T, or exactly one of .htx/.key/.val written for T and the rest for U), opened as U; each for populated maps and for maps that were only created; (2) for every key type x each of the three files x {populated, created-only} x each of the 16 signature bytes (8 format magic + 8 type signature): the byte replaced by every other value (quick: +-1, case flip, every single-bit flip, 0x00, 0xFF and letters used by other signatures), opened as the same type; (3) one file replaced by 1..4096 bytes of a foreign format; (4) files of a T map of which any non-empty proper subset is absent or zero-length, opened as U (the surviving files must be unchanged); (5) a file whose header or whole content is zeroed with its length kept. Oracle: the open returns Err or panics (never Ok), and afterwards the three files are byte-identical to what was written. Every case is distinct by construction and non-trivial (each one is a different foreign or damaged header). The ordered pairs (u64,vu64) and (vu64,u64) are a known finding (D7: shared type signature) and are excluded: 16 cases, counted in excluded_draws."
            .to_string()
    }
    fn n_cases(&self, tier: Tier) -> u64 {
        cases(tier).0.len() as u64
    }
    fn exhaustive(&self, tier: Tier) -> bool {
        tier == Tier::Thorough
    }
    fn run_case(&self, tier: Tier, _seed: u64, index: u64, w: &WCtx) -> CaseOut {
        let (cs, excluded) = cases(tier);
        let c = &cs[index as usize % cs.len()];
        let mut out = CaseOut {
            index,
            profile: w.profile.clone(),
            excluded: if index == 0 { excluded } else { 0 },
            ..Default::default()
        };
        match run_c13(c, w) {
            Ok((rep, n)) => {
                out.evals = n;
                out.labels = rep.labels;
                // each evaluated (case, value) is distinct
                match c {
                    C13Case::Pair { .. } | C13Case::Foreign { .. } | C13Case::Missing { .. } | C13Case::Zeroed { .. } => out.nontrivial.push(digest_of(c)),
                    C13Case::Mut { values, .. } => {
                        for v in values {
                            out.nontrivial.push(digest_of(&(c, v)));
                        }
                    }
                }
                if index % 37 == 3 {
                    out.sample = Some(serde_json::to_value(c).unwrap());
                }
            }
            Err(f) => {
                out.evals = 1;
                // narrow to the failing value
                let mut case = serde_json::to_value(c).unwrap();
                if let C13Case::Mut { kt, file, byte, empty, .. } = c {
                    if let Some(v) = f
                        .msg
                        .split(" to 0x")
                        .nth(1)
                        .and_then(|s| u8::from_str_radix(&s[..2.min(s.len())], 16).ok())
                    {
                        case = serde_json::to_value(C13Case::Mut {
                            kt: *kt,
                            file: *file,
                            byte: *byte,
                            values: vec![v],
                            empty: *empty,
                        })
                        .unwrap();
                    }
                }
                out.failure = Some(f);
                out.case = Some(case);
            }
        }
        out
    }
    fn gen_case(&self, tier: Tier, _seed: u64, index: u64) -> Value {
        let (cs, _) = cases(tier);
        serde_json::to_value(&cs[index as usize % cs.len()]).unwrap()
    }
    fn replay(&self, case: &Value, w: &WCtx) -> Result<Report, Failure> {
        let c: C13Case = serde_json::from_value(case.clone())
            .map_err(|e| Failure::new("infra", None, format!("bad replay file: {e}")))?;
        run_c13(&c, w).map(|x| x.0)
    }
}
