//! C03 — flush/sync make all preceding updates durable on disk (fault enumeration: every
//! flush/sync call site is a crash point).
use super::*;
use crate::gen::*;

fn cfg(tier: Tier, index: u64) -> HistCfg {
    let mut w = Weights::basic();
    // a sync point every ~1..30 updates
    let dens = [2u32, 6, 12, 30][(index % 4) as usize];
    w.flush = dens;
    w.sync = dens * 2;
    w.dbsync = dens;
    w.get = 6;
    w.inc = 1;
    w.len = 1;
    w.is_empty = 0;
    w.reopen = if index % 5 == 0 { 1 } else { 0 };
    HistCfg {
        kts: Kt::ALL.to_vec(),
        key: KeyProfile::Medium,
        n_keys: 1..=30,
        bufs: if index % 3 == 0 { BufProfile::Any } else { BufProfile::Plain },
        allow_lt8: true,
        max_buckets: 4096,
        ops: OpsCfg {
            w,
            val: if index % 9 == 0 { ValProfile::Big } else { ValProfile::Mixed },
            n_ops: tier.pick(0..=120, 0..=300),
            reopen_params: None,
            reopen_child: false,
            max_batch: 0,
            n_maps: 1,
        },
        obs: Obs {
            snapshot_at_sync: true,
            decode_at_sync: true,
            io_trace: true,
            ..Default::default()
        },
        target_pct: 10,
    }
}

fn nontrivial(_h: &History, r: &Report) -> bool {
    r.get("sync_point_with_updates") >= 1 && r.has("sync_all_three_changed")
}

pub fn prop() -> HistProp {
    HistProp {
        id: "C03",
        level: "fault_enumeration",
        rule: "seeded random histories with flush / sync_data / sync_all / db-level sync every 1-30 updates (incl. sync on a created-only map); EVERY successful flush/sync call is a crash point: while all handles are alive the three files are read from disk, decoded by the independent decoder and copied to a side directory that is opened with the crate; both must equal the model. For sync_data/sync_all each file whose on-disk bytes changed since its last OS sync must show the matching sync event in the io trace (hook in VarFile). evaluations counts histories; label sync_point counts crash points. A case is non-trivial if it has a sync point with updates since the previous one at which all three files had changed; distinct by case digest.",
        assumptions: &[
            "page cache = disk: real power loss is out of reach; the fsync/fdatasync request is the stand-in",
            "the io trace hook sits in VarFile::{flush,sync_all,sync_data}; the system-call level is cross-checked by the strace variant (child cases)",
        ],
        cfg,
        n: |t| t.pick(1500, 15000),
        nontrivial,
        timeout: |t| t.pick(60, 120),
        shrink_iters: 400,
    }
}

pub fn child_main(_req: &str) -> i32 {
    2
}
