//! C03 — flush/sync make all preceding updates durable on disk (fault enumeration: every
//! flush/sync call site is a crash point).
use super::*;
use crate::gen::*;

fn cfg(tier: Tier, index: u64) -> HistCfg {
    let mut w = Weights::basic();
    // a sync point every ~1..30 updates
    let dens = [2u32, 6, 12, 30][(index % 4) as usize];
    w.flush = dens;
    w.sync = dens * 2;
    w.dbsync = dens;
    w.get = 6;
    w.inc = 1;
    w.len = 1;
    w.is_empty = 0;
    w.reopen = if index % 5 == 0 { 1 } else { 0 };
    // counters that wrap: bursts of 2^8 / 2^16 (+-1) identical puts between sync points
    w.burst = if index % 15 == 7 { 3 } else { 0 };
    // handle churn incl. dropping every user handle before a database-level sync
    w.handles = if index % 4 == 2 { 12 } else { 0 };
    let mut c = HistCfg {
        kts: Kt::ALL.to_vec(),
        key: KeyProfile::Medium,
        n_keys: 1..=30,
        bufs: if index % 3 == 0 { BufProfile::Any } else { BufProfile::Plain },
        allow_lt8: true,
        max_buckets: 4096,
        ops: OpsCfg {
            w,
            val: if index % 9 == 0 { ValProfile::Big } else { ValProfile::Mixed },
            n_ops: tier.pick(0..=120, 0..=300),
            reopen_params: None,
            reopen_child: false,
            max_batch: 0,
            n_maps: 1,
        },
        obs: Obs {
            snapshot_at_sync: true,
            decode_at_sync: true,
            io_trace: true,
            ..Default::default()
        },
        target_pct: 10,
        prelude: Prelude::None,
        phases: false,
        special_keys: false,
        default_table: false,
        big_table: None,
        empty_mid: false,
        empty_end: false,
    };
    rare_regions(&mut c, index);
    if c.prelude != Prelude::None {
        c.ops.n_ops = tier.pick(0..=40, 0..=80);
    }
    c
}

fn nontrivial(_h: &History, r: &Report) -> bool {
    r.get("sync_point_with_updates") >= 1 && r.has("sync_all_three_changed")
}

pub fn prop() -> HistProp {
    HistProp {
        id: "C03",
        level: "fault_enumeration",
        rule: "seeded random histories with flush / sync_data / sync_all / db-level sync every 1-30 updates (incl. sync on a created-only map); EVERY successful flush/sync call is a crash point: while all handles are alive the three files are read from disk, decoded by the independent decoder and copied to a side directory that is opened with the crate; both must equal the model. For sync_data/sync_all each file whose on-disk bytes changed since its last OS sync must show the matching sync event in the io trace (hook in VarFile). evaluations counts histories; label sync_point counts crash points. A case is non-trivial if it has a sync point with updates since the previous one at which all three files had changed; distinct by case digest.",
        assumptions: &[
            "page cache = disk: real power loss is out of reach; the fsync/fdatasync request is the stand-in",
            "the io trace hook sits in VarFile::{flush,sync_all,sync_data}; the system-call level is cross-checked by the strace variant (child cases)",
        ],
        cfg,
        n: |t| t.pick(8000, 40000),
        nontrivial,
        timeout: |t| t.pick(60, 120),
        shrink_iters: 400,
    }
}

// ------------------------------------------------------------------------------------------
// child-process variants: SIGKILL at a sync point, and strace ground truth for OS sync requests

use crate::subcmd::RunHistoryReq;
use proptest::prelude::*;
use serde::{Deserialize, Serialize};
use std::io::{BufRead, BufReader, Write};
use std::process::{Command, Stdio};

#[derive(Serialize, Deserialize, Clone, Debug)]
pub struct C03Child {
    pub h: History,
    /// which sync point (scaled index) the writer is killed at; None: run to the end under strace
    pub kill_sel: Option<u16>,
}

/// child side: run the history; announce every sync point and wait for the parent's decision
pub fn child_main(req_file: &str) -> i32 {
    crate::runner::install_panic_hook();
    crate::runner::quiet_panics(true);
    let req: RunHistoryReq = serde_json::from_str(&std::fs::read_to_string(req_file).expect("req")).expect("req json");
    let _ = std::fs::create_dir_all(&req.dir);
    let ctx = crate::exec::Ctx {
        dir: std::path::PathBuf::from(&req.dir),
        exe: None,
        cur_op: std::cell::Cell::new(0),
    };
    let marker = |i: usize, tag: &str| {
        let c = std::ffi::CString::new(format!("/vp-sync-{i}-{tag}")).unwrap();
        unsafe {
            libc::access(c.as_ptr(), libc::F_OK);
        }
    };
    // the parent blocks on this process's output: forward the progress counter so that its
    // watchdog can tell a slow writer from a hung one
    std::thread::spawn(|| {
        let mut last = 0u64;
        loop {
            std::thread::sleep(std::time::Duration::from_millis(500));
            let p = crate::exec::PROGRESS.load(std::sync::atomic::Ordering::Relaxed);
            if p != last {
                last = p;
                let so = std::io::stdout();
                let mut so = so.lock();
                let _ = writeln!(so, "TICK");
                let _ = so.flush();
            }
        }
    });
    let r = crate::runner::guarded(&ctx, || {
        let mut e = Exec::new(&req.history, &ctx)?;
        e.on_sync_begin = Some(Box::new(|i| marker(i, "b")));
        e.on_sync_end = Some(Box::new(|i, need: &[String]| {
            marker(i, "e");
            let so = std::io::stdout();
            let mut so = so.lock();
            let _ = writeln!(so, "SYNC {i} {}", need.join(","));
            let _ = so.flush();
            let mut line = String::new();
            if let Ok(0) = std::io::stdin().read_line(&mut line) {
                // the parent is gone (killed by its watchdog): do not linger
                unsafe { libc::_exit(3) }
            }
        }));
        e.run()?;
        Ok(e.rep.clone())
    });
    match r {
        Ok(_) => println!("DONE ok"),
        Err(f) => println!("DONE {}", serde_json::to_string(&f).unwrap()),
    }
    0
}

fn child_strategy(tier: Tier, index: u64, kill: bool) -> BoxedStrategy<C03Child> {
    let mut c = cfg(tier, index);
    c.ops.n_ops = tier.pick(1..=80, 1..=200);
    c.ops.w.reopen = 0;
    // the child checks the io trace itself; snapshots are taken by the parent
    c.obs = Obs {
        io_trace: true,
        ..Default::default()
    };
    (crate::gen::history_strategy(c), any::<u16>())
        .prop_map(move |(h, k)| C03Child {
            h,
            kill_sel: if kill { Some(k) } else { None },
        })
        .boxed()
}

fn strace_available() -> bool {
    Command::new("strace")
        .arg("-V")
        .stdout(Stdio::null())
        .stderr(Stdio::null())
        .status()
        .map(|s| s.success())
        .unwrap_or(false)
}

fn verify_left_behind(dir: &std::path::Path, h: &History, n_ops: usize, what: &str) -> Result<(), Failure> {
    use crate::childproc::{digest_model, verify_dir, DirMap, VerifyReq};
    let models = crate::exec::model_after(h, n_ops);
    for (mi, ms) in h.maps.iter().enumerate() {
        let files = crate::exec::read_files(dir, &ms.name)
            .map_err(|e| Failure::new("durability", Some(n_ops), format!("{what}: files unreadable: {e}")))?;
        let d = crate::decoder::decode(ms.kt, &files[0], &files[1], &files[2]);
        if let Some(c) = d.header.first().or(d.structure.first()) {
            return Err(Failure::new("durability", Some(n_ops), format!("{what}: independent decode: {c}")));
        }
        if d.contents() != models[mi] {
            return Err(Failure::new(
                "durability",
                Some(n_ops),
                format!("{what}: decoded contents ({} entries) differ from the state at the sync point ({} entries)", d.contents().len(), models[mi].len()),
            ));
        }
    }
    let keys: Vec<Vec<Vec<u8>>> = h.maps.iter().map(|m| m.keys.iter().map(|k| k.bytes()).collect()).collect();
    let req = VerifyReq {
        dir: dir.to_string_lossy().to_string(),
        maps: h
            .maps
            .iter()
            .enumerate()
            .map(|(i, m)| DirMap {
                name: m.name.clone(),
                kt: m.kt,
                params: m.params,
                keys: keys[i].iter().map(|k| hex(k)).collect(),
            })
            .collect(),
    };
    crate::runner::quiet_panics(true);
    let got = std::panic::catch_unwind(std::panic::AssertUnwindSafe(|| verify_dir(&req)));
    crate::runner::quiet_panics(false);
    match got {
        Ok(Ok(g)) => {
            for (i, m) in h.maps.iter().enumerate() {
                if g.maps[i] != digest_model(&keys[i], &models[i]) {
                    return Err(Failure::new(
                        "durability",
                        Some(n_ops),
                        format!("{what}: map {} opens to other contents than the state at the sync point", m.name),
                    ));
                }
            }
            Ok(())
        }
        Ok(Err(e)) => Err(Failure::new("durability", Some(n_ops), format!("{what}: cannot be opened: {e}"))),
        Err(p) => Err(Failure::new(
            "durability",
            Some(n_ops),
            format!("{what}: cannot be opened: panic: {}", crate::runner::panic_text(&p)),
        )),
    }
}

fn run_child_case(c: &C03Child, w: &WCtx) -> Result<Report, Failure> {
    let mut rep = Report::default();
    let sync_ops: Vec<usize> = c.h.ops.iter().enumerate().filter(|(_, o)| o.is_sync()).map(|(i, _)| i).collect();
    let dir = w.fresh_dir();
    let dbdir = dir.join("db");
    let req = RunHistoryReq {
        dir: dbdir.to_string_lossy().to_string(),
        history: c.h.clone(),
    };
    let reqf = dir.join("req.json");
    std::fs::write(&reqf, serde_json::to_string(&req).unwrap()).map_err(|e| Failure::new("infra", None, format!("write req: {e}")))?;
    let strace_log = dir.join("strace.log");
    let use_strace = c.kill_sel.is_none() && strace_available();
    if c.kill_sel.is_none() && !use_strace {
        rep.bump("strace_unavailable");
    }
    let mut cmd = if use_strace {
        let mut cm = Command::new("strace");
        cm.args(["-f", "-qq", "-y", "-e", "trace=fsync,fdatasync,access", "-o"])
            .arg(&strace_log)
            .arg(&w.exe);
        cm
    } else {
        Command::new(&w.exe)
    };
    let mut child = cmd
        .arg("c03-child")
        .arg(&reqf)
        .stdin(Stdio::piped())
        .stdout(Stdio::piped())
        .stderr(Stdio::null())
        .spawn()
        .map_err(|e| Failure::new("infra", None, format!("spawn child: {e}")))?;
    let mut stdin = child.stdin.take().unwrap();
    let stdout = child.stdout.take().unwrap();
    let kill_at: Option<usize> = match (c.kill_sel, sync_ops.len()) {
        (Some(k), n) if n > 0 => Some(sync_ops[(k as usize * n) >> 16]),
        _ => None,
    };
    let mut needs: Vec<(usize, Vec<String>)> = Vec::new();
    let mut done: Option<String> = None;
    let mut killed_at: Option<usize> = None;
    let rd = BufReader::new(stdout);
    for line in rd.lines() {
        let line = match line {
            Ok(l) => l,
            Err(_) => break,
        };
        if line == "TICK" {
            crate::exec::tick();
            continue;
        }
        if let Some(rest) = line.strip_prefix("SYNC ") {
            let mut it = rest.splitn(2, ' ');
            let i: usize = it.next().unwrap_or("0").parse().unwrap_or(0);
            let need: Vec<String> = it.next().unwrap_or("").split(',').filter(|s| !s.is_empty()).map(|s| s.to_string()).collect();
            needs.push((i, need));
            if Some(i) == kill_at {
                unsafe {
                    libc::kill(child.id() as i32, libc::SIGKILL);
                }
                killed_at = Some(i);
                break;
            }
            let _ = writeln!(stdin, "go");
            let _ = stdin.flush();
        } else if let Some(rest) = line.strip_prefix("DONE ") {
            done = Some(rest.to_string());
            break;
        }
    }
    drop(stdin);
    let _ = child.wait();
    let result = (|| -> Result<(), Failure> {
        if let Some(i) = killed_at {
            // the directory left behind by the killed writer
            verify_left_behind(&dbdir, &c.h, i + 1, &format!("directory left behind when the writer is SIGKILLed right after {:?} (op {i}) returned Ok", c.h.ops[i]))?;
            rep.bump("killed_at_sync_point");
            let ups = c.h.ops[..=i].iter().filter(|o| o.is_update()).count();
            if ups > 0 {
                rep.bump("killed_after_updates");
            }
            return Ok(());
        }
        match done.as_deref() {
            Some("ok") => {}
            Some(f) => {
                let f: Failure = serde_json::from_str(f).unwrap_or_else(|_| Failure::new("child", None, f.to_string()));
                return Err(Failure::new(&f.kind, f.op, format!("(writer in a child process) {}", f.msg)));
            }
            None => return Err(Failure::new("abort", None, "the writer child ended without a result".into())),
        }
        if use_strace {
            let log = std::fs::read_to_string(&strace_log).unwrap_or_default();
            if !log.contains("vp-sync-") {
                rep.bump("strace_unavailable");
                return Ok(());
            }
            // events per sync op
            let mut cur: Option<usize> = None;
            let mut ev: std::collections::BTreeMap<usize, Vec<(String, String)>> = std::collections::BTreeMap::new();
            for l in log.lines() {
                if let Some(p) = l.find("access(\"/vp-sync-") {
                    let rest = &l[p + 17..];
                    let num: String = rest.chars().take_while(|c| c.is_ascii_digit()).collect();
                    let i: usize = num.parse().unwrap_or(0);
                    if rest[num.len()..].starts_with("-b") {
                        cur = Some(i);
                    } else {
                        cur = None;
                    }
                    continue;
                }
                for sc in ["fdatasync", "fsync"] {
                    if let Some(p) = l.find(&format!("{sc}(")) {
                        if l[..p].chars().all(|c| c.is_ascii_digit() || c == ' ') {
                            if let (Some(i), Some(a), Some(b)) = (cur, l.find('<'), l.find('>')) {
                                let path = &l[a + 1..b];
                                let base = path.rsplit('/').next().unwrap_or(path).to_string();
                                ev.entry(i).or_default().push((sc.to_string(), base));
                            }
                        }
                    }
                }
            }
            for (i, need) in &needs {
                let op = &c.h.ops[*i];
                let want_all = matches!(op, Op::SyncAll | Op::DbSyncAll);
                if matches!(op, Op::Flush) {
                    continue;
                }
                let got = ev.get(i).cloned().unwrap_or_default();
                for f in need {
                    let ok = got.iter().any(|(sc, b)| b == f && (sc == "fsync" || (!want_all && sc == "fdatasync")));
                    if !ok {
                        return Err(Failure::new(
                            "iotrace",
                            Some(*i),
                            format!(
                                "{:?} returned Ok but no {} system call was made for {f} (changed on disk since its last OS sync); system calls seen during the call: {:?}",
                                op,
                                if want_all { "fsync" } else { "fdatasync/fsync" },
                                got
                            ),
                        ));
                    }
                    rep.bump("strace_sync_confirmed");
                }
            }
            rep.bump("strace_checked");
        }
        Ok(())
    })();
    w.cleanup(&dir);
    result?;
    Ok(rep)
}

pub struct C03;

// fault + retry variant: a refused flush/sync (RLIMIT_FSIZE in a child process, the C16 machinery),
// then -- limit lifted, optionally further updates -- a flush/sync that returns Ok: a sync point like
// any other.  Only failures of the Ok-returning calls are claimed here; how the refusal itself is
// reported is C16's business.
fn n_fault(tier: Tier) -> u64 {
    tier.pick(240, 1500)
}

fn fault_case(tier: Tier, seed: u64, index: u64, w: &WCtx) -> Result<super::c16::C16Case, Failure> {
    let r = case_seed(seed, "C03", index);
    let n16 = super::c16::C16.n_cases(tier);
    let mut c = super::c16::case_of(tier, r % n16, w)?;
    c.mid = if (r >> 40) % 3 == 0 { 0 } else { 1 };
    Ok(c)
}

fn run_fault_case(c: &super::c16::C16Case, w: &WCtx) -> Result<Report, Failure> {
    let mut rep = Report::default();
    match super::c16::run_c16_stage(c, w) {
        Ok(r) => {
            if r.has("call_err_under_limit") {
                rep.bump("retry_after_refused_sync_checked");
                if c.mid > 0 {
                    rep.bump("retry_after_refused_sync_with_updates_in_between");
                }
            } else {
                rep.bump("ok_under_limit_checked");
            }
        }
        Err((f, st)) => match st.as_str() {
            "recovered" | "ok-under-limit" | "left-behind" => {
                return Err(Failure::new("durability", None, format!("(refused sync, then a sync that returned Ok) {}", f.msg)))
            }
            "infra" => return Err(f),
            _ => rep.bump("failure_outside_c03_ignored"),
        },
    }
    Ok(rep)
}

fn n_kill(tier: Tier) -> u64 {
    tier.pick(1500, 7500)
}
fn n_strace(tier: Tier) -> u64 {
    tier.pick(300, 1500)
}

impl Prop for C03 {
    fn id(&self) -> &'static str {
        "C03"
    }
    fn level(&self) -> &'static str {
        "fault_enumeration"
    }
    fn rule(&self) -> String {
        format!("{} CHILD VARIANTS: (kill) the history is executed by a spawned writer process that announces every sync point; the parent SIGKILLs it right after a generated one of them returned Ok and then decodes and opens the directory left behind: it must equal the model state at that point. (strace) the writer runs to the end under `strace -f -y -e trace=fsync,fdatasync,access`; for every sync_data/sync_all the files that had changed on disk must show a real fdatasync/fsync (sync_all: fsync) system call between the call's begin/end markers. Labels killed_at_sync_point / strace_sync_confirmed count these. (fault + retry) in a child process a flush/sync is refused by RLIMIT_FSIZE = T (shapes, calls and thresholds of the C16 enumeration, drawn by the seed), the limit is lifted, in two thirds of the cases further updates are made, and the next flush/sync (another call kind) returns Ok: the files on disk, and the directory left behind when the process then exits without running destructors, must hold the model state; label retry_after_refused_sync_checked.", prop().rule)
    }
    fn assumptions(&self) -> Vec<String> {
        let mut a = prop().assumptions();
        a.push("if ptrace/strace is unavailable the system-call sub-check is reported as skipped (label strace_unavailable), never as a violation".into());
        a
    }
    fn n_cases(&self, tier: Tier) -> u64 {
        prop().n_cases(tier) + n_kill(tier) + n_strace(tier) + n_fault(tier)
    }
    fn timeout_s(&self, tier: Tier) -> u64 {
        tier.pick(90, 180)
    }
    fn run_case(&self, tier: Tier, seed: u64, index: u64, w: &WCtx) -> CaseOut {
        let nh = prop().n_cases(tier);
        if index < nh {
            return prop().run_case(tier, seed, index, w);
        }
        if index >= nh + n_kill(tier) + n_strace(tier) {
            let mut out = CaseOut {
                index,
                evals: 1,
                profile: w.profile.clone(),
                ..Default::default()
            };
            let c = match fault_case(tier, seed, index, w) {
                Ok(c) => c,
                Err(f) => {
                    out.failure = Some(f);
                    return out;
                }
            };
            match run_fault_case(&c, w) {
                Ok(rep) => {
                    if rep.has("retry_after_refused_sync_checked") {
                        out.nontrivial.push(digest_of(&c));
                    }
                    out.labels = rep.labels;
                    if index % 31 == 5 {
                        out.sample = Some(json!({ "Fault": c }));
                    }
                }
                Err(f) => {
                    out.failure = Some(f);
                    out.case = Some(json!({ "Fault": c }));
                }
            }
            return out;
        }
        let kill = index < nh + n_kill(tier);
        let st = child_strategy(tier, index, kill);
        let mut out = run_generated(
            index,
            &st,
            case_seed(seed, "C03", index),
            120,
            w,
            |c: &C03Child| run_child_case(c, w),
            |c, rep| (rep.has("killed_after_updates") || rep.has("strace_sync_confirmed"), digest_of(c)),
        );
        if let Some(c) = out.case.take() {
            out.case = Some(json!({ "Child": c }));
        }
        if let Some(s) = out.sample.take() {
            if index % 7 == 0 {
                out.sample = Some(json!({ "Child": s }));
            }
        }
        out
    }
    fn gen_case(&self, tier: Tier, seed: u64, index: u64) -> Value {
        let nh = prop().n_cases(tier);
        if index < nh {
            return prop().gen_case(tier, seed, index);
        }
        if index >= nh + n_kill(tier) + n_strace(tier) {
            return json!({"Fault": "drawn at run time (needs the file sizes of a dry run)"});
        }
        let kill = index < nh + n_kill(tier);
        json!({"Child": draw(&child_strategy(tier, index, kill), case_seed(seed, "C03", index))})
    }
    fn replay(&self, case: &Value, w: &WCtx) -> Result<Report, Failure> {
        if let Some(c) = case.get("Fault") {
            let c: super::c16::C16Case = serde_json::from_value(c.clone())
                .map_err(|e| Failure::new("infra", None, format!("bad replay file: {e}")))?;
            return run_fault_case(&c, w);
        }
        if let Some(c) = case.get("Child") {
            let c: C03Child = serde_json::from_value(c.clone())
                .map_err(|e| Failure::new("infra", None, format!("bad replay file: {e}")))?;
            return run_child_case(&c, w);
        }
        prop().replay(case, w)
    }
    fn reductions(&self, case: &Value) -> Vec<Value> {
        history_reductions(case)
    }
}
