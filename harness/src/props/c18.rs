//! C18 — the on-disk image is a deterministic function of the update history.
use super::*;
use crate::gen::*;
use crate::subcmd::{RunHistoryOut, RunHistoryReq};
use proptest::prelude::*;
use serde::{Deserialize, Serialize};

#[derive(Serialize, Deserialize, Clone, Debug)]
pub struct C18Case {
    pub h: History,
    /// read-only calls spliced into run B: (position in h.ops, op)
    pub splices: Vec<(u16, Op)>,
}

pub struct C18;

fn cfg(tier: Tier, index: u64) -> HistCfg {
    let mut w = Weights::basic();
    w.put = 45;
    w.del = 22;
    w.get = 2;
    w.inc = 0;
    w.len = 0;
    w.is_empty = 0;
    w.bulk = 2;
    w.reopen = if index % 4 == 0 { 1 } else { 0 };
    let mut c = HistCfg {
        kts: Kt::ALL.to_vec(),
        key: KeyProfile::Medium,
        n_keys: 1..=50,
        bufs: if index % 3 == 0 { BufProfile::Any } else { BufProfile::Plain },
        allow_lt8: true,
        max_buckets: 4096,
        ops: OpsCfg {
            w,
            val: if index % 7 == 0 { ValProfile::Big } else { ValProfile::Mixed },
            n_ops: tier.pick(0..=200, 0..=500),
            reopen_params: None,
            reopen_child: false,
            max_batch: 8,
            n_maps: 1,
        },
        obs: Obs::default(),
        target_pct: 20,
        prelude: Prelude::None,
        phases: false,
        special_keys: false,
        default_table: false,
        big_table: None,
        empty_mid: false,
        empty_end: false,
    };
    rare_regions(&mut c, index);
    if index % 300 == 113 {
        // chains of thousands of links; the spliced reads look up old (deep) keys
        make_very_dense(&mut c);
        c.max_buckets = 4;
        c.ops.w.bulk = 0;
    }
    if index % 6 == 1 {
        // batches of thousands of pairs
        c.ops.max_batch = 200;
        c.ops.val = ValProfile::Small;
        c.ops.w.bulk = 6;
        if index % 60 == 1 {
            // a pool large enough for batches of thousands of DISTINCT keys
            c.n_keys = 2100..=3500;
            c.key = KeyProfile::Short;
            c.ops.n_ops = 1..=60;
            c.ops.w.bulk = 25;
        }
    }
    c
}

fn ro_cfg() -> OpsCfg {
    OpsCfg {
        w: Weights {
            put: 0,
            get: 30,
            del: 0,
            inc: 8,
            len: 4,
            is_empty: 2,
            strs: 0,
            bulk: 0,
            iter: 14,
            stats: 5,
            readfill: 4,
            flush: 0,
            sync: 0,
            dbsync: 0,
            handles: 3,
            // an update-free close + reopen (same parameters) is spliced in as well
            reopen: 1,
            burst: 0,
        },
        val: ValProfile::Small,
        n_ops: 0..=60,
        reopen_params: None,
        reopen_child: false,
        max_batch: 0,
        n_maps: 1,
    }
}

fn strategy(tier: Tier, index: u64) -> BoxedStrategy<C18Case> {
    history_strategy(cfg(tier, index))
        .prop_flat_map(|h| {
            let nk = h.maps[0].keys.len();
            let p0 = h.maps[0].params;
            let n = h.ops.len().max(1) as u16;
            let sp = proptest::collection::vec((0..=n, op_strategy(&ro_cfg(), nk, p0)), 0..=60);
            (Just(h), sp)
        })
        .prop_map(|(h, splices)| C18Case { h, splices })
        .boxed()
}

fn spliced(c: &C18Case) -> History {
    let mut h = c.h.clone();
    let mut sp = c.splices.clone();
    sp.sort_by_key(|s| s.0);
    let mut ops = Vec::new();
    let mut si = 0;
    for (i, op) in c.h.ops.iter().enumerate() {
        while si < sp.len() && (sp[si].0 as usize) <= i {
            ops.push(sp[si].1.clone());
            si += 1;
        }
        ops.push(op.clone());
    }
    while si < sp.len() {
        ops.push(sp[si].1.clone());
        si += 1;
    }
    h.ops = ops;
    h
}

fn run_c18(c: &C18Case, w: &WCtx) -> Result<Report, Failure> {
    // run A in process
    let ctx = w.ctx();
    let ra = guarded(&ctx, || {
        let mut e = Exec::new(&c.h, &ctx)?;
        e.run()?;
        Ok(e.rep.clone())
    });
    let name = c.h.maps[0].name.clone();
    let fa = crate::exec::read_files(&ctx.dir, &name);
    w.cleanup(&ctx.dir);
    let mut rep = ra?;
    let fa = fa.map_err(|e| Failure::new("infra", None, format!("read files A: {e}")))?;
    // run B in a child, other directory, with spliced read-only calls
    let dir_b = w.fresh_dir();
    let req = RunHistoryReq {
        dir: dir_b.join("other-place").to_string_lossy().to_string(),
        history: spliced(c),
    };
    let out: Result<RunHistoryOut, String> = crate::childproc::run_child_json(
        &w.exe,
        "run-history",
        &serde_json::to_string(&req).unwrap(),
        &w.scratch,
        120,
    );
    let fb = crate::exec::read_files(&dir_b.join("other-place"), &name);
    w.cleanup(&dir_b);
    match out {
        Err(e) => return Err(Failure::new("child", None, format!("run B (child process): {e}"))),
        Ok(o) => {
            if let Some(f) = o.failure {
                return Err(Failure::new(&f.kind, f.op, format!("run B (child, spliced reads): {}", f.msg)));
            }
        }
    }
    let fb = fb.map_err(|e| Failure::new("infra", None, format!("read files B: {e}")))?;
    let names = ["htx", "key", "val"];
    for i in 0..3 {
        if fa[i] != fb[i] {
            let pos = fa[i].iter().zip(fb[i].iter()).position(|(a, b)| a != b);
            return Err(Failure::new(
                "nondeterministic",
                Some(c.h.ops.len()),
                format!(
                    "the {} files of two runs of the same update history differ: length {} vs {}, first differing byte at {:?}",
                    names[i],
                    fa[i].len(),
                    fb[i].len(),
                    pos
                ),
            ));
        }
    }
    rep.add("spliced_reads", c.splices.len() as u64);
    if c.splices.len() >= 10 {
        rep.bump("spliced_ge10");
    }
    Ok(rep)
}

impl Prop for C18 {
    fn id(&self) -> &'static str {
        "C18"
    }
    fn rule(&self) -> String {
        "each seeded random update history (put/delete/bulk updates, optional clean reopen, all key types, any buffer settings) is executed twice with the same parameters: run A in the worker process, run B in a freshly spawned process, in another directory, with 0-60 generated read-only calls (lookups, traversals incl. by nth(), iterators created, advanced and kept alive across the following updates without being stepped again, statistics, read_fill_buffer, handle clones and re-lookups, an update-free close + reopen) spliced between the updates; after close the three files of A and B must be byte-identical. Non-trivial: the history deletes a present key or overwrites into another slot class (so that slots are freed and reused) and at least 10 read-only calls were spliced; distinct by case digest."
            .to_string()
    }
    fn assumptions(&self) -> Vec<String> {
        vec!["both runs happen on one machine and toolchain: dependence on endianness or pointer width is not exercised".into()]
    }
    fn n_cases(&self, tier: Tier) -> u64 {
        tier.pick(6000, 30000)
    }
    fn timeout_s(&self, tier: Tier) -> u64 {
        tier.pick(90, 180)
    }
    fn run_case(&self, tier: Tier, seed: u64, index: u64, w: &WCtx) -> CaseOut {
        let st = strategy(tier, index);
        run_generated(
            index,
            &st,
            case_seed(seed, "C18", index),
            300,
            w,
            |c: &C18Case| run_c18(c, w),
            |c, rep| {
                (
                    (rep.has("delete_present") || rep.has("overwrite_other_class")) && rep.has("spliced_ge10"),
                    digest_of(c),
                )
            },
        )
    }
    fn gen_case(&self, tier: Tier, seed: u64, index: u64) -> Value {
        serde_json::to_value(draw(&strategy(tier, index), case_seed(seed, "C18", index))).unwrap_or(json!(null))
    }
    fn replay(&self, case: &Value, w: &WCtx) -> Result<Report, Failure> {
        let c: C18Case = serde_json::from_value(case.clone())
            .map_err(|e| Failure::new("infra", None, format!("bad replay file: {e}")))?;
        run_c18(&c, w)
    }
    fn reductions(&self, case: &Value) -> Vec<Value> {
        let mut out = Vec::new();
        for hred in history_reductions(&case["h"]) {
            let mut c = case.clone();
            c["h"] = hred;
            out.push(c);
        }
        out
    }
}
