//! Parent / worker machinery: case distribution, watchdog, hang policy, shrinking glue,
//! known findings, evidence files.
use crate::exec::{Ctx, Failure, Report};
use proptest::strategy::{BoxedStrategy, Strategy, ValueTree};
use proptest::test_runner::{Config, RngAlgorithm, TestRng, TestRunner};
use serde::{Deserialize, Serialize};
use serde_json::{json, Value};
use std::cell::{Cell, RefCell};
#[allow(unused_imports)]
use proptest::strategy::Strategy as _;
use std::collections::{BTreeMap, HashSet};
use std::io::{BufRead, BufReader, Write};
use std::path::{Path, PathBuf};
use std::process::{Child, Command, Stdio};
use std::sync::atomic::{AtomicBool, AtomicU64, Ordering};
use std::sync::{Arc, Mutex};
use std::time::{Duration, Instant};

#[derive(Clone, Copy, Debug, PartialEq, Eq)]
pub enum Tier {
    Quick,
    Thorough,
}

impl Tier {
    pub fn name(&self) -> &'static str {
        match self {
            Tier::Quick => "quick",
            Tier::Thorough => "thorough",
        }
    }
    pub fn pick<T>(&self, q: T, t: T) -> T {
        match self {
            Tier::Quick => q,
            Tier::Thorough => t,
        }
    }
}

// ------------------------------------------------------------------ panic capture

thread_local! {
    static LAST_PANIC: RefCell<Option<String>> = RefCell::new(None);
    static QUIET: Cell<bool> = Cell::new(false);
}

pub fn install_panic_hook() {
    let default = std::panic::take_hook();
    std::panic::set_hook(Box::new(move |info| {
        let msg = if let Some(s) = info.payload().downcast_ref::<&str>() {
            s.to_string()
        } else if let Some(s) = info.payload().downcast_ref::<String>() {
            s.clone()
        } else {
            "panic".to_string()
        };
        let loc = info
            .location()
            .map(|l| {
                let f = l.file();
                let short = f.rsplit('/').next().unwrap_or(f);
                format!(" at {}:{}", short, l.line())
            })
            .unwrap_or_default();
        LAST_PANIC.with(|p| *p.borrow_mut() = Some(format!("{msg}{loc}")));
        if !QUIET.with(|q| q.get()) {
            default(info);
        }
    }));
}

pub fn quiet_panics(q: bool) {
    QUIET.with(|c| c.set(q));
}

pub fn panic_text(p: &Box<dyn std::any::Any + Send>) -> String {
    if let Some(t) = LAST_PANIC.with(|l| l.borrow_mut().take()) {
        return t;
    }
    if let Some(s) = p.downcast_ref::<&str>() {
        s.to_string()
    } else if let Some(s) = p.downcast_ref::<String>() {
        s.clone()
    } else {
        "panic".to_string()
    }
}

/// run `f` catching panics; a panic becomes a Failure of kind "panic" at the op recorded in ctx
pub fn guarded<F>(ctx: &Ctx, f: F) -> Result<Report, Failure>
where
    F: FnOnce() -> Result<Report, Failure>,
{
    quiet_panics(true);
    let r = std::panic::catch_unwind(std::panic::AssertUnwindSafe(f));
    quiet_panics(false);
    match r {
        Ok(x) => x,
        Err(p) => Err(Failure::new(
            "panic",
            Some(ctx.cur_op.get()),
            format!("panicked: {}", panic_text(&p)),
        )),
    }
}

// ------------------------------------------------------------------ seeds

pub fn splitmix(mut x: u64) -> u64 {
    x = x.wrapping_add(0x9E3779B97F4A7C15);
    let mut z = x;
    z = (z ^ (z >> 30)).wrapping_mul(0xBF58476D1CE4E5B9);
    z = (z ^ (z >> 27)).wrapping_mul(0x94D049BB133111EB);
    z ^ (z >> 31)
}

pub fn case_seed(seed: u64, prop: &str, index: u64) -> u64 {
    let mut h = splitmix(seed);
    for b in prop.bytes() {
        h = splitmix(h ^ b as u64);
    }
    splitmix(h ^ index.wrapping_mul(0xD6E8FEB86659FD93))
}

pub fn rng_for(seed: u64) -> TestRng {
    let mut bytes = [0u8; 32];
    let mut s = seed;
    for i in 0..4 {
        s = splitmix(s);
        bytes[i * 8..i * 8 + 8].copy_from_slice(&s.to_le_bytes());
    }
    TestRng::from_seed(RngAlgorithm::ChaCha, &bytes)
}

pub fn runner_for(seed: u64, shrink_iters: u32) -> TestRunner {
    let cfg = Config {
        cases: 1,
        failure_persistence: None,
        max_shrink_iters: shrink_iters,
        max_shrink_time: 0,
        ..Config::default()
    };
    TestRunner::new_with_rng(cfg, rng_for(seed))
}

/// draw one value from a strategy with a fixed seed (no test run)
pub fn draw<T: std::fmt::Debug>(s: &BoxedStrategy<T>, seed: u64) -> T {
    let mut r = runner_for(seed, 0);
    s.new_tree(&mut r).expect("strategy rejected").current()
}

// ------------------------------------------------------------------ per-case output

#[derive(Serialize, Deserialize, Clone, Debug, Default)]
pub struct CaseOut {
    pub index: u64,
    /// evaluations this case stands for
    pub evals: u64,
    /// digests of the distinct non-trivial (sub)cases it contained
    pub nontrivial: Vec<u64>,
    pub labels: BTreeMap<String, u64>,
    pub sample: Option<Value>,
    pub failure: Option<Failure>,
    /// failing case (shrunk where possible)
    pub case: Option<Value>,
    pub excluded: u64,
    pub extra: Option<Value>,
    pub profile: String,
}

pub struct WCtx {
    pub scratch: PathBuf,
    pub exe: PathBuf,
    pub profile: String,
    pub verif_root: PathBuf,
    counter: Cell<u64>,
}

impl WCtx {
    pub fn new(scratch: PathBuf, exe: PathBuf, profile: String, verif_root: PathBuf) -> WCtx {
        WCtx {
            scratch,
            exe,
            profile,
            verif_root,
            counter: Cell::new(0),
        }
    }
    /// fresh empty directory
    pub fn fresh_dir(&self) -> PathBuf {
        let n = self.counter.get();
        self.counter.set(n + 1);
        let d = self.scratch.join(format!("c{n}"));
        let _ = std::fs::remove_dir_all(&d);
        std::fs::create_dir_all(&d).expect("cannot create scratch dir");
        d
    }
    pub fn ctx(&self) -> Ctx {
        Ctx {
            dir: self.fresh_dir(),
            exe: Some(self.exe.clone()),
            cur_op: Cell::new(0),
        }
    }
    pub fn cleanup(&self, d: &Path) {
        let _ = std::fs::remove_dir_all(d);
    }
    /// remember the sub-case being executed, so that the parent can build a replay file if this
    /// process hangs or dies inside it
    pub fn note_current(&self, v: &Value) {
        let _ = std::fs::write(self.scratch.join("current.json"), serde_json::to_string(v).unwrap_or_default());
    }
}

pub trait Prop: Sync {
    fn id(&self) -> &'static str;
    fn level(&self) -> &'static str {
        "exploration"
    }
    fn rule(&self) -> String;
    fn assumptions(&self) -> Vec<String> {
        vec![]
    }
    fn n_cases(&self, tier: Tier) -> u64;
    /// seconds without a result after which a worker is considered hung
    fn timeout_s(&self, _tier: Tier) -> u64 {
        30
    }
    /// fraction of cases (out of 4) run on the release (non-strict) build
    fn release_share(&self) -> u64 {
        1
    }
    fn run_case(&self, tier: Tier, seed: u64, index: u64, w: &WCtx) -> CaseOut;
    /// the generated (unshrunk) case as JSON, for hang/abort replays
    fn gen_case(&self, tier: Tier, seed: u64, index: u64) -> Value;
    /// execute a saved case strictly (nothing tolerated)
    fn replay(&self, case: &Value, w: &WCtx) -> Result<Report, Failure>;
    fn exhaustive(&self, _tier: Tier) -> bool {
        false
    }
    /// reduce a failing case by removing parts; returns candidates (used for hangs, parent side)
    fn reductions(&self, _case: &Value) -> Vec<Value> {
        vec![]
    }
    /// extra evidence fields computed from per-case extras
    fn summarize(&self, _extras: &[Value]) -> Option<Value> {
        None
    }
}

/// glue: run one proptest-generated case, shrink on failure (own shrink loop over the
/// strategy's ValueTree, so that `draw` with the same seed yields the same case)
pub fn run_generated<C, F>(
    index: u64,
    strategy: &BoxedStrategy<C>,
    cseed: u64,
    shrink_iters: u32,
    w: &WCtx,
    test: F,
    info: impl Fn(&C, &Report) -> (bool, u64),
) -> CaseOut
where
    C: std::fmt::Debug + Clone + Serialize,
    F: Fn(&C) -> Result<Report, Failure>,
{
    let mut out = CaseOut {
        index,
        evals: 1,
        profile: w.profile.clone(),
        ..Default::default()
    };
    let mut runner = runner_for(cseed, shrink_iters);
    let mut tree = match strategy.new_tree(&mut runner) {
        Ok(t) => t,
        Err(e) => {
            out.failure = Some(Failure::new("infra", None, format!("strategy rejected: {e}")));
            return out;
        }
    };
    let c = tree.current();
    match test(&c) {
        Ok(rep) => {
            let (nt, digest) = info(&c, &rep);
            if nt {
                out.nontrivial.push(digest);
            }
            out.labels = rep.labels.clone();
            if index < 6 || (nt && index < 64) {
                out.sample = Some(serde_json::to_value(&c).unwrap_or(Value::Null));
            }
        }
        Err(f0) => {
            // shrink: only the same kind of failure counts
            let started = Instant::now();
            let mut best: (C, Failure) = (c, f0.clone());
            let mut iters = 0u32;
            if f0.kind != "infra" && tree.simplify() {
                loop {
                    iters += 1;
                    if iters > shrink_iters || started.elapsed() > Duration::from_secs(12) {
                        break;
                    }
                    let cand = tree.current();
                    match test(&cand) {
                        Err(f) if f.kind == f0.kind => {
                            best = (cand, f);
                            if !tree.simplify() {
                                break;
                            }
                        }
                        _ => {
                            if !tree.complicate() {
                                break;
                            }
                        }
                    }
                }
            }
            out.labels.insert("shrink_calls".into(), iters as u64);
            out.case = Some(serde_json::to_value(&best.0).unwrap_or(Value::Null));
            out.failure = Some(best.1);
        }
    }
    out
}

// ------------------------------------------------------------------ known findings

#[derive(Serialize, Deserialize, Clone, Debug)]
pub struct Finding {
    pub property: String,
    /// known | fixed
    pub status: String,
    /// substring of Failure::signature() identifying this finding
    pub signature: String,
    #[serde(default)]
    pub replay: Option<String>,
    pub text: String,
    #[serde(default)]
    pub commit: Option<String>,
    pub line: String,
}

pub fn load_findings(root: &Path) -> Vec<Finding> {
    let p = root.join("known_findings.json");
    match std::fs::read_to_string(&p) {
        Ok(s) => {
            let v: Value = serde_json::from_str(&s).unwrap_or(json!({"findings": []}));
            serde_json::from_value(v["findings"].clone()).unwrap_or_default()
        }
        Err(_) => vec![],
    }
}

// ------------------------------------------------------------------ scratch

pub fn scratch_base() -> PathBuf {
    let shm = Path::new("/dev/shm");
    if shm.is_dir() {
        // need room: check free space via statvfs
        let c = std::ffi::CString::new("/dev/shm").unwrap();
        let mut st: libc::statvfs = unsafe { std::mem::zeroed() };
        let r = unsafe { libc::statvfs(c.as_ptr(), &mut st) };
        if r == 0 && (st.f_bavail as u64) * (st.f_frsize as u64) > 4 * 1024 * 1024 * 1024 {
            return shm.to_path_buf();
        }
    }
    std::env::var("TMPDIR")
        .map(PathBuf::from)
        .unwrap_or_else(|_| PathBuf::from("/tmp"))
}

pub fn verif_root() -> PathBuf {
    if let Ok(r) = std::env::var("VERIF_ROOT") {
        return PathBuf::from(r);
    }
    // <root>/harness/target/<profile>/vp
    let exe = std::env::current_exe().unwrap();
    exe.parent()
        .and_then(|p| p.parent())
        .and_then(|p| p.parent())
        .and_then(|p| p.parent())
        .map(|p| p.to_path_buf())
        .unwrap_or_else(|| PathBuf::from("/verif"))
}

/// executable of the other profile (strict <-> release), if built
pub fn exe_for_profile(profile: &str) -> Option<PathBuf> {
    let exe = std::env::current_exe().ok()?;
    let tdir = exe.parent()?.parent()?;
    let p = tdir.join(profile).join("vp");
    if p.is_file() {
        Some(p)
    } else {
        None
    }
}

pub fn current_profile() -> String {
    let exe = std::env::current_exe().unwrap();
    exe.parent()
        .and_then(|p| p.file_name())
        .map(|s| s.to_string_lossy().to_string())
        .unwrap_or_else(|| "release".into())
}

/// background thread: publishes this process's progress counter in `<dir>/progress`
pub fn start_heartbeat(dir: PathBuf) {
    std::thread::spawn(move || {
        let mut last = u64::MAX;
        loop {
            let v = crate::exec::PROGRESS.load(Ordering::Relaxed);
            if v != last {
                let _ = std::fs::write(dir.join("progress"), v.to_string());
                last = v;
            }
            std::thread::sleep(Duration::from_millis(250));
        }
    });
}

fn read_progress(dir: &Path) -> Option<u64> {
    std::fs::read_to_string(dir.join("progress")).ok()?.trim().parse().ok()
}

// ------------------------------------------------------------------ worker (child side)

pub fn worker_main(prop: &dyn Prop, tier: Tier, seed: u64, scratch: PathBuf) {
    install_panic_hook();
    let _ = std::fs::create_dir_all(&scratch);
    start_heartbeat(scratch.clone());
    let w = WCtx::new(
        scratch.clone(),
        std::env::current_exe().unwrap(),
        current_profile(),
        verif_root(),
    );
    let stdin = std::io::stdin();
    let stdout = std::io::stdout();
    for line in stdin.lock().lines() {
        let line = match line {
            Ok(l) => l,
            Err(_) => break,
        };
        let t = line.trim();
        if t == "quit" || t.is_empty() {
            break;
        }
        let idx: u64 = match t.parse() {
            Ok(i) => i,
            Err(_) => break,
        };
        crate::exec::tick();
        let out = prop.run_case(tier, seed, idx, &w);
        let s = serde_json::to_string(&out).unwrap();
        let mut so = stdout.lock();
        let _ = writeln!(so, "{s}");
        let _ = so.flush();
        let _ = std::fs::remove_file(scratch.join("current.json"));
        // keep the scratch small
        if let Ok(rd) = std::fs::read_dir(&scratch) {
            for e in rd.flatten() {
                if e.file_name() != "progress" {
                    let _ = std::fs::remove_dir_all(e.path());
                }
            }
        }
    }
    let _ = std::fs::remove_dir_all(&scratch);
}

// ------------------------------------------------------------------ parent

struct Slot {
    pid: AtomicU64,
    busy_since: Mutex<Option<(u64, Instant)>>,
    killed: AtomicBool,
    /// 1: no progress for the time limit (hang), 2: progressing but beyond the hard cap (slow)
    kill_reason: AtomicU64,
    /// last progress value seen and when it changed
    progress: Mutex<(u64, Instant)>,
}

pub struct Suspect {
    pub index: u64,
    pub profile: String,
    pub why: String,
    /// the sub-case the worker had noted when it died (WCtx::note_current)
    pub case: Option<Value>,
}

pub struct RunResult {
    pub outs: Vec<CaseOut>,
    pub suspects: Vec<Suspect>,
    pub wall_s: f64,
}

fn spawn_worker(exe: &Path, prop: &str, tier: Tier, seed: u64, scratch: &Path) -> std::io::Result<Child> {
    Command::new(exe)
        .arg("worker")
        .arg(prop)
        .arg(tier.name())
        .arg(seed.to_string())
        .arg(scratch)
        .stdin(Stdio::piped())
        .stdout(Stdio::piped())
        .stderr(Stdio::null())
        .spawn()
}

pub fn n_workers() -> usize {
    if let Ok(v) = std::env::var("VP_WORKERS") {
        if let Ok(n) = v.parse::<usize>() {
            return n.max(1);
        }
    }
    std::thread::available_parallelism().map(|n| n.get()).unwrap_or(8).min(16)
}

/// distribute case indices over worker processes of both profiles
pub fn run_parallel(prop: &dyn Prop, tier: Tier, seed: u64, base: &Path) -> RunResult {
    let start = Instant::now();
    let n = prop.n_cases(tier);
    let timeout = Duration::from_secs(prop.timeout_s(tier));
    let nw = n_workers().min(n.max(1) as usize);
    let strict_exe = exe_for_profile("strict");
    let release_exe = exe_for_profile("release");
    // index -> profile: i % 4 < release_share => release
    let share = prop.release_share();
    let mut strict_idx: Vec<u64> = Vec::new();
    let mut release_idx: Vec<u64> = Vec::new();
    for i in 0..n {
        let rel = (i % 4) < share;
        if (rel && release_exe.is_some()) || strict_exe.is_none() {
            release_idx.push(i);
        } else {
            strict_idx.push(i);
        }
    }
    let n_rel_w = if release_idx.is_empty() {
        0
    } else if strict_idx.is_empty() {
        nw
    } else {
        ((nw as u64 * release_idx.len() as u64 + n - 1) / n.max(1)).clamp(1, nw as u64 - 1) as usize
    };
    let queues: Vec<(String, PathBuf, Arc<Mutex<Vec<u64>>>, usize)> = vec![
        (
            "release".to_string(),
            release_exe.clone().unwrap_or_else(|| std::env::current_exe().unwrap()),
            Arc::new(Mutex::new(release_idx.into_iter().rev().collect())),
            n_rel_w,
        ),
        (
            "strict".to_string(),
            strict_exe.clone().unwrap_or_else(|| std::env::current_exe().unwrap()),
            Arc::new(Mutex::new(strict_idx.into_iter().rev().collect())),
            nw - n_rel_w,
        ),
    ];
    let outs: Arc<Mutex<Vec<CaseOut>>> = Arc::new(Mutex::new(Vec::new()));
    let suspects: Arc<Mutex<Vec<Suspect>>> = Arc::new(Mutex::new(Vec::new()));
    let slots: Arc<Vec<Slot>> = Arc::new(
        (0..nw)
            .map(|_| Slot {
                pid: AtomicU64::new(0),
                busy_since: Mutex::new(None),
                killed: AtomicBool::new(false),
                kill_reason: AtomicU64::new(0),
                progress: Mutex::new((0, Instant::now())),
            })
            .collect(),
    );
    let done = Arc::new(AtomicBool::new(false));
    // stop handing out cases once enough failures are collected (a fuzzer stops at the first
    // failure; we collect a handful so that distinct root causes show up in one run)
    let n_fail = Arc::new(AtomicU64::new(0));
    let n_susp = Arc::new(AtomicU64::new(0));
    // watchdog
    let wd = {
        let slots = slots.clone();
        let done = done.clone();
        let base = base.to_path_buf();
        std::thread::spawn(move || {
            // a worker is hung if its progress counter has not moved for `timeout`; a case that
            // keeps progressing is only stopped at a hard cap and reported as slow (inconclusive)
            let hard_cap = timeout * 15;
            while !done.load(Ordering::Relaxed) {
                for (si, s) in slots.iter().enumerate() {
                    let b = s.busy_since.lock().unwrap().clone();
                    if let Some((_i, t)) = b {
                        let now = Instant::now();
                        let cur = read_progress(&base.join(format!("w{si}")));
                        let mut pr = s.progress.lock().unwrap();
                        if let Some(v) = cur {
                            if v != pr.0 {
                                *pr = (v, now);
                            }
                        }
                        let quiet_since = if pr.1 > t { pr.1 } else { t };
                        let hung = now.duration_since(quiet_since) > timeout;
                        let slow = t.elapsed() > hard_cap;
                        if hung || slow {
                            let pid = s.pid.load(Ordering::Relaxed);
                            if pid != 0 && !s.killed.load(Ordering::Relaxed) {
                                s.kill_reason.store(if hung { 1 } else { 2 }, Ordering::Relaxed);
                                s.killed.store(true, Ordering::Relaxed);
                                unsafe {
                                    libc::kill(pid as i32, libc::SIGKILL);
                                }
                            }
                        }
                    }
                }
                std::thread::sleep(Duration::from_millis(300));
            }
        })
    };
    let prop_id = prop.id().to_string();
    let mut threads = Vec::new();
    let mut slot_no = 0usize;
    for (profile, exe, queue, count) in queues {
        for _ in 0..count {
            let my_slot = slot_no;
            slot_no += 1;
            let exe = exe.clone();
            let queue = queue.clone();
            let outs = outs.clone();
            let suspects = suspects.clone();
            let slots = slots.clone();
            let prop_id = prop_id.clone();
            let profile = profile.clone();
            let n_fail = n_fail.clone();
            let n_susp = n_susp.clone();
            let scratch = base.join(format!("w{my_slot}"));
            threads.push(std::thread::spawn(move || {
                let mut child: Option<(Child, BufReader<std::process::ChildStdout>)> = None;
                let mut respawns = 0;
                loop {
                    if n_fail.load(Ordering::Relaxed) >= 24 || n_susp.load(Ordering::Relaxed) >= 4 {
                        break;
                    }
                    let idx = match queue.lock().unwrap().pop() {
                        Some(i) => i,
                        None => break,
                    };
                    if child.is_none() {
                        match spawn_worker(&exe, &prop_id, tier, seed, &scratch) {
                            Ok(mut c) => {
                                let so = c.stdout.take().unwrap();
                                slots[my_slot].pid.store(c.id() as u64, Ordering::Relaxed);
                                slots[my_slot].killed.store(false, Ordering::Relaxed);
                                child = Some((c, BufReader::new(so)));
                            }
                            Err(e) => {
                                suspects.lock().unwrap().push(Suspect {
                                    index: idx,
                                    profile: profile.clone(),
                                    why: format!("cannot spawn worker: {e}"),
                                    case: None,
                                });
                                break;
                            }
                        }
                    }
                    let (c, rd) = child.as_mut().unwrap();
                    *slots[my_slot].busy_since.lock().unwrap() = Some((idx, Instant::now()));
                    let wr = {
                        let si = c.stdin.as_mut().unwrap();
                        writeln!(si, "{idx}").and_then(|_| si.flush())
                    };
                    let mut line = String::new();
                    let rr = if wr.is_ok() { rd.read_line(&mut line) } else { Ok(0) };
                    *slots[my_slot].busy_since.lock().unwrap() = None;
                    let parsed: Option<CaseOut> = match rr {
                        Ok(nb) if nb > 0 => serde_json::from_str(line.trim()).ok(),
                        _ => None,
                    };
                    match parsed {
                        Some(o) => {
                            if o.failure.is_some() {
                                n_fail.fetch_add(1, Ordering::Relaxed);
                            }
                            outs.lock().unwrap().push(o)
                        }
                        None => {
                            // the worker died or was killed
                            let killed = slots[my_slot].killed.load(Ordering::Relaxed);
                            let (mut c, _) = child.take().unwrap();
                            let _ = c.kill();
                            let st = c.wait().ok();
                            slots[my_slot].pid.store(0, Ordering::Relaxed);
                            let noted = std::fs::read_to_string(scratch.join("current.json"))
                                .ok()
                                .and_then(|t| serde_json::from_str::<Value>(&t).ok());
                            suspects.lock().unwrap().push(Suspect {
                                index: idx,
                                case: noted,
                                profile: profile.clone(),
                                why: if killed && slots[my_slot].kill_reason.load(Ordering::Relaxed) == 2 {
                                    "SLOW: still progressing at the hard time cap (worker stopped by watchdog)".to_string()
                                } else if killed {
                                    "no progress within the time limit (worker killed by watchdog)".to_string()
                                } else {
                                    format!("worker process died: {:?}", st)
                                },
                            });
                            let _ = std::fs::remove_dir_all(&scratch);
                            n_susp.fetch_add(1, Ordering::Relaxed);
                            respawns += 1;
                            if respawns > 50 {
                                break;
                            }
                        }
                    }
                }
                if let Some((mut c, _)) = child.take() {
                    if let Some(mut si) = c.stdin.take() {
                        let _ = writeln!(si, "quit");
                    }
                    let _ = c.wait();
                }
                slots[my_slot].pid.store(0, Ordering::Relaxed);
                let _ = std::fs::remove_dir_all(&scratch);
            }));
        }
    }
    for t in threads {
        let _ = t.join();
    }
    done.store(true, Ordering::Relaxed);
    let _ = wd.join();
    let mut o = std::mem::take(&mut *outs.lock().unwrap());
    o.sort_by_key(|c| c.index);
    let s = std::mem::take(&mut *suspects.lock().unwrap());
    RunResult {
        outs: o,
        suspects: s,
        wall_s: start.elapsed().as_secs_f64(),
    }
}

/// outcome of running one saved case in a child process
#[derive(Debug, Clone, PartialEq)]
pub enum ChildRun {
    Pass,
    Fail(String),
    /// no progress for the time limit
    Hang,
    /// still progressing when the hard cap (15 x the limit) was reached
    Slow,
    Died(String),
}

/// run `vp replay-inner <file>` under a time limit with the given profile
pub fn run_case_file_in_child(profile: &str, file: &Path, limit_s: u64) -> ChildRun {
    let exe = exe_for_profile(profile).unwrap_or_else(|| std::env::current_exe().unwrap());
    static CHILD_NO: AtomicU64 = AtomicU64::new(0);
    let scratch = scratch_base().join(format!(
        "vp-replay-{}-{}",
        std::process::id(),
        CHILD_NO.fetch_add(1, Ordering::Relaxed)
    ));
    struct Cleanup(PathBuf);
    impl Drop for Cleanup {
        fn drop(&mut self) {
            let _ = std::fs::remove_dir_all(&self.0);
        }
    }
    let _cleanup = Cleanup(scratch.clone());
    let mut child = match Command::new(&exe)
        .arg("replay-inner")
        .arg(file)
        .env("VP_SCRATCH", &scratch)
        .stdin(Stdio::null())
        .stdout(Stdio::piped())
        .stderr(Stdio::null())
        .spawn()
    {
        Ok(c) => c,
        Err(e) => return ChildRun::Died(format!("spawn: {e}")),
    };
    let start = Instant::now();
    let mut last_prog: (u64, Instant) = (u64::MAX, Instant::now());
    let mut last_read = Instant::now();
    loop {
        match child.try_wait() {
            Ok(Some(st)) => {
                let mut so = String::new();
                if let Some(mut o) = child.stdout.take() {
                    use std::io::Read;
                    let _ = o.read_to_string(&mut so);
                }
                return match st.code() {
                    Some(0) => ChildRun::Pass,
                    Some(1) => ChildRun::Fail(so.lines().last().unwrap_or("").to_string()),
                    other => ChildRun::Died(format!("exit {:?} signal {:?}", other, {
                        use std::os::unix::process::ExitStatusExt;
                        st.signal()
                    })),
                };
            }
            Ok(None) => {
                if last_read.elapsed() > Duration::from_millis(400) {
                    last_read = Instant::now();
                    if let Some(v) = read_progress(&scratch) {
                        if v != last_prog.0 {
                            last_prog = (v, Instant::now());
                        }
                    }
                }
                if last_prog.1.elapsed().as_secs() >= limit_s {
                    let _ = child.kill();
                    let _ = child.wait();
                    return ChildRun::Hang;
                }
                if start.elapsed().as_secs() >= limit_s * 15 {
                    let _ = child.kill();
                    let _ = child.wait();
                    return ChildRun::Slow;
                }
                std::thread::sleep(Duration::from_millis(5));
            }
            Err(e) => return ChildRun::Died(format!("wait: {e}")),
        }
    }
}

pub fn write_replay(root: &Path, prop: &str, tag: &str, profile: &str, case: &Value, failure: &Failure) -> PathBuf {
    let dir = root.join("work").join("replays");
    let _ = std::fs::create_dir_all(&dir);
    let h = crate::exec::fnv(serde_json::to_string(case).unwrap_or_default().as_bytes());
    let p = dir.join(format!("{prop}-{tag}-{:08x}.json", h as u32));
    let v = json!({
        "property": prop,
        "profile": profile,
        "failure": failure,
        "case": case,
    });
    let _ = std::fs::write(&p, serde_json::to_string_pretty(&v).unwrap());
    p
}

/// the full check of one property: run, hang policy, known findings, evidence, exit code
pub fn check_main(prop: &dyn Prop, tier: Tier, seed: u64) -> i32 {
    let root = verif_root();
    let base = scratch_base().join(format!("vp-{}", std::process::id()));
    let _ = std::fs::remove_dir_all(&base);
    if std::fs::create_dir_all(&base).is_err() {
        eprintln!("scratch directory cannot be created: inconclusive");
        return 2;
    }
    let id = prop.id();
    let findings: Vec<Finding> = load_findings(&root)
        .into_iter()
        .filter(|f| f.property == id)
        .collect();
    let mut exit = 0;
    let mut violations = 0;
    let mut known_seen: Vec<String> = Vec::new();
    let mut inconclusive: Vec<String> = Vec::new();
    let mut viol_lines: Vec<String> = Vec::new();

    // 1. replay the reproducers of known / fixed findings
    for f in &findings {
        if let Some(r) = &f.replay {
            let path = root.join(r);
            if !path.is_file() {
                continue;
            }
            let profile = std::fs::read_to_string(&path)
                .ok()
                .and_then(|s| serde_json::from_str::<Value>(&s).ok())
                .and_then(|v| v["profile"].as_str().map(|s| s.to_string()))
                .unwrap_or_else(|| "strict".into());
            let res = run_case_file_in_child(&profile, &path, 120);
            match (f.status.as_str(), res) {
                ("known", ChildRun::Pass) => {
                    println!("NOTE: known finding no longer reproduces: property={id} {}", f.text);
                }
                ("known", _) => {
                    println!("KNOWN-FINDING: property={id} {}", f.text);
                    known_seen.push(f.signature.clone());
                }
                ("fixed", ChildRun::Pass) => {}
                ("fixed", other) => {
                    println!("VIOLATION property={id} replay={}", path.display());
                    eprintln!("fixed finding is back: {} ({:?})", f.text, other);
                    violations += 1;
                    exit = 1;
                }
                _ => {}
            }
        } else if f.status == "known" {
            // structural exclusion without a replay file (e.g. a region never generated)
            println!("KNOWN-FINDING: property={id} {}", f.text);
            known_seen.push(f.signature.clone());
        }
    }

    // 2. generated cases
    let rr = run_parallel(prop, tier, seed, &base);
    let mut evals: u64 = 0;
    let mut nontrivial: HashSet<u64> = HashSet::new();
    let mut labels: BTreeMap<String, u64> = BTreeMap::new();
    let mut label_sums: BTreeMap<String, u64> = BTreeMap::new();
    let mut samples: Vec<Value> = Vec::new();
    let mut excluded: u64 = 0;
    let mut extras: Vec<Value> = Vec::new();
    let mut by_profile: BTreeMap<String, u64> = BTreeMap::new();
    let mut failing: Vec<&CaseOut> = Vec::new();
    for o in &rr.outs {
        evals += o.evals;
        excluded += o.excluded;
        *by_profile.entry(o.profile.clone()).or_insert(0) += 1;
        for d in &o.nontrivial {
            nontrivial.insert(*d);
        }
        for (l, c) in &o.labels {
            if *c > 0 {
                *labels.entry(l.clone()).or_insert(0) += 1;
                *label_sums.entry(l.clone()).or_insert(0) += *c;
            }
        }
        if let Some(s) = &o.sample {
            if samples.len() < 4 {
                samples.push(s.clone());
            }
        }
        if let Some(e) = &o.extra {
            extras.push(e.clone());
        }
        if o.failure.is_some() {
            failing.push(o);
        }
    }
    // failures: known or violation; one replay file per distinct signature
    let mut seen_sig: HashSet<String> = HashSet::new();
    for o in failing {
        let f = o.failure.as_ref().unwrap();
        if f.kind == "infra" {
            inconclusive.push(format!("case {}: {}", o.index, f.msg));
            continue;
        }
        let sig = f.signature();
        if let Some(k) = findings
            .iter()
            .find(|k| k.status == "known" && sig.contains(&k.signature))
        {
            if !known_seen.contains(&k.signature) {
                println!("KNOWN-FINDING: property={id} {}", k.text);
                known_seen.push(k.signature.clone());
            }
            continue;
        }
        violations += 1;
        exit = 1;
        if seen_sig.insert(sig.clone()) && seen_sig.len() <= 5 {
            let case = o.case.clone().unwrap_or(Value::Null);
            let p = write_replay(&root, id, &format!("i{}", o.index), &o.profile, &case, f);
            // confirm in a fresh process (strict replay)
            let confirm = run_case_file_in_child(&o.profile, &p, 120);
            viol_lines.push(format!("VIOLATION property={id} replay={}", p.display()));
            println!("VIOLATION property={id} replay={}", p.display());
            eprintln!(
                "  case {} [{}] {} at op {:?}: {} (fresh-process replay: {:?})",
                o.index, o.profile, f.kind, f.op, f.msg, confirm
            );
        }
    }
    // 3. suspects (hang / death): re-run alone, twice
    let mut handled = 0;
    for s in &rr.suspects {
        if s.why.starts_with("SLOW") {
            inconclusive.push(format!("case {}: {}", s.index, s.why));
            continue;
        }
        handled += 1;
        if handled > 3 {
            inconclusive.push(format!("case {}: {} (not re-run, too many suspects)", s.index, s.why));
            continue;
        }
        let case = s.case.clone().unwrap_or_else(|| prop.gen_case(tier, seed, s.index));
        let f = Failure::new("hang_or_abort", None, s.why.clone());
        let p = write_replay(&root, id, &format!("i{}-suspect", s.index), &s.profile, &case, &f);
        let limit = prop.timeout_s(tier).max(30);
        let r1 = run_case_file_in_child(&s.profile, &p, limit);
        let r2 = if r1 == ChildRun::Pass {
            ChildRun::Pass
        } else {
            run_case_file_in_child(&s.profile, &p, limit)
        };
        let bad = |r: &ChildRun| !matches!(r, ChildRun::Pass | ChildRun::Slow);
        if bad(&r1) && bad(&r2) {
            // reproduced twice
            let kind = match (&r1, &r2) {
                (ChildRun::Hang, ChildRun::Hang) => "hang",
                (ChildRun::Died(_), ChildRun::Died(_)) => "abort",
                (ChildRun::Fail(_), ChildRun::Fail(_)) => "fail",
                _ => "mixed",
            };
            if kind == "mixed" {
                inconclusive.push(format!("case {}: {:?} then {:?}", s.index, r1, r2));
                continue;
            }
            let msg = format!("{kind}: {:?}", r1);
            let f2 = Failure::new(kind, None, msg.clone());
            let sig = f2.signature();
            if let Some(k) = findings
                .iter()
                .find(|k| k.status == "known" && sig.contains(&k.signature))
            {
                if !known_seen.contains(&k.signature) {
                    println!("KNOWN-FINDING: property={id} {}", k.text);
                    known_seen.push(k.signature.clone());
                }
                continue;
            }
            // minimise from the parent side with child runs
            let minimal = if handled == 1 {
                minimise_in_children(prop, &case, &s.profile, &r1, limit.min(10))
            } else {
                case.clone()
            };
            let p2 = write_replay(&root, id, &format!("i{}-{kind}", s.index), &s.profile, &minimal, &f2);
            violations += 1;
            exit = 1;
            println!("VIOLATION property={id} replay={}", p2.display());
            eprintln!("  case {} [{}]: {}", s.index, s.profile, msg);
        } else {
            inconclusive.push(format!(
                "case {}: {} but passed when re-run alone ({:?}, {:?})",
                s.index, s.why, r1, r2
            ));
        }
    }
    if !inconclusive.is_empty() && exit == 0 {
        exit = 2;
    }
    for m in &inconclusive {
        eprintln!("INCONCLUSIVE: {m}");
    }
    // 4. evidence
    let mut cov = json!({
        "evaluations": evals,
        "distinct_nontrivial": nontrivial.len(),
        "rule": prop.rule(),
        "samples": samples,
        "cases": rr.outs.len(),
        "cases_planned": prop.n_cases(tier),
        "cases_by_build_profile": by_profile,
        "label_histogram_cases": labels,
        "label_totals": label_sums,
        "excluded_draws": excluded,
        "known_findings_seen": known_seen,
        "inconclusive": inconclusive,
        "exhaustive": prop.exhaustive(tier) && inconclusive.is_empty() && rr.suspects.is_empty(),
    });
    if let Some(extra) = prop.summarize(&extras) {
        if let (Some(c), Some(e)) = (cov.as_object_mut(), extra.as_object()) {
            for (k, v) in e {
                c.insert(k.clone(), v.clone());
            }
        }
    }
    let ev = json!({
        "property_id": id,
        "tier": tier.name(),
        "seed": seed,
        "level": prop.level(),
        "coverage": cov,
        "assumptions": prop.assumptions(),
        "wall_s": rr.wall_s,
        "violations": violations,
    });
    let evdir = std::env::var("VP_EVIDENCE_DIR")
        .map(PathBuf::from)
        .unwrap_or_else(|_| root.join("evidence"));
    let _ = std::fs::create_dir_all(&evdir);
    let _ = std::fs::write(
        evdir.join(format!("{id}.json")),
        serde_json::to_string_pretty(&ev).unwrap(),
    );
    let _ = std::fs::remove_dir_all(&base);
    eprintln!(
        "{id} {}: {} cases, {} evaluations, {} distinct non-trivial, {} violations, {:.1}s, exit {exit}",
        tier.name(),
        rr.outs.len(),
        evals,
        nontrivial.len(),
        violations,
        rr.wall_s
    );
    exit
}

/// greedy reduction using the property's `reductions`, each candidate run in a child
fn minimise_in_children(prop: &dyn Prop, case: &Value, profile: &str, want: &ChildRun, limit: u64) -> Value {
    let root = verif_root();
    let tmp = root.join("work").join("replays").join(format!("min-{}.json", std::process::id()));
    let mut cur = case.clone();
    let mut budget = 24;
    let same = |a: &ChildRun, b: &ChildRun| std::mem::discriminant(a) == std::mem::discriminant(b);
    loop {
        let mut progressed = false;
        for cand in prop.reductions(&cur) {
            if budget == 0 {
                break;
            }
            budget -= 1;
            let v = json!({"property": prop.id(), "profile": profile, "case": cand});
            let _ = std::fs::write(&tmp, serde_json::to_string(&v).unwrap());
            let r = run_case_file_in_child(profile, &tmp, limit);
            if same(&r, want) {
                cur = cand;
                progressed = true;
                break;
            }
        }
        if !progressed || budget == 0 {
            break;
        }
    }
    let _ = std::fs::remove_file(&tmp);
    cur
}

/// `vp replay-inner <file>`: exit 0 pass, 1 fail (prints the failure)
pub fn replay_inner(prop: &dyn Prop, case: &Value) -> i32 {
    install_panic_hook();
    let base = std::env::var("VP_SCRATCH")
        .map(PathBuf::from)
        .unwrap_or_else(|_| scratch_base().join(format!("vp-replay-{}", std::process::id())));
    let _ = std::fs::create_dir_all(&base);
    start_heartbeat(base.clone());
    let w = WCtx::new(base.clone(), std::env::current_exe().unwrap(), current_profile(), verif_root());
    let r = prop.replay(case, &w);
    let _ = std::fs::remove_dir_all(&base);
    match r {
        Ok(_) => 0,
        Err(f) => {
            println!("{}", serde_json::to_string(&f).unwrap());
            1
        }
    }
}
