#![no_main]
//! Coverage-guided fuzz target: bytes -> call history -> interpreter + BTreeMap model +
//! independent decoder (structure, tiling, contents) at every sync and close.
use libfuzzer_sys::fuzz_target;
use std::cell::Cell;
use vpcore::exec::{Ctx, Exec};

fuzz_target!(|data: &[u8]| {
    let h = match vpcore::fuzzdec::history_from_bytes(data) {
        Some(h) => h,
        None => return,
    };
    let base = std::env::var("VP_FUZZ_SCRATCH").unwrap_or_else(|_| "/dev/shm".to_string());
    let dir = std::path::PathBuf::from(format!("{}/vp-fuzz-{}", base, std::process::id()));
    let _ = std::fs::remove_dir_all(&dir);
    std::fs::create_dir_all(&dir).expect("scratch");
    let ctx = Ctx {
        dir: dir.clone(),
        exe: None,
        cur_op: Cell::new(0),
    };
    let r = (|| {
        let mut e = Exec::new(&h, &ctx)?;
        e.run()
    })();
    let _ = std::fs::remove_dir_all(&dir);
    if let Err(f) = r {
        panic!("PROPERTY VIOLATION: {} at op {:?}: {}", f.kind, f.op, f.msg);
    }
});
