#!/bin/sh
# Coverage-guided campaign for C01 (thorough tier): libFuzzer target harness/fuzz (history),
# 16 jobs, fresh corpus seeded from harness/fuzz/seeds.  Every crash/timeout artifact is converted
# into a JSON case and re-executed by `vp replay`; only a reproduced failure is a violation.
# exit 0 nothing found, 1 violation (VIOLATION line printed), 2 inconclusive / fuzzer unavailable
set -u
ROOT=$(cd "$(dirname "$0")/.." && pwd)
SEED=${VERIF_SEED:-20260926}
RUNS=${VP_FUZZ_RUNS:-20000}
JOBS=${VP_FUZZ_JOBS:-16}
W="$ROOT/work/fuzz"
VP="$ROOT/harness/target/release/vp"
rm -rf "$W"; mkdir -p "$W/corpus" "$W/artifacts" "$ROOT/work/replays"
cp "$ROOT"/harness/fuzz/seeds/* "$W/corpus/"
cd "$ROOT/harness/fuzz" || exit 2
export CARGO_NET_OFFLINE=true
if ! cargo +nightly fuzz build history >"$W/build.log" 2>&1; then
    echo "fuzz target does not build (see $W/build.log): coverage-guided stage skipped" >&2
    echo '{"status":"fuzzer unavailable","executions":0}' > "$W/summary.json"
    "$VP" evidence-merge "$ROOT/evidence/C01.json" fuzz "$W/summary.json"
    exit 2
fi
S=$(date +%s)
( cd "$W" && cargo +nightly fuzz run --fuzz-dir "$ROOT/harness/fuzz" history "$W/corpus" -- \
    -jobs=$JOBS -workers=$JOBS -runs=$RUNS -seed=$SEED -max_len=2048 -len_control=0 -timeout=30 \
    -artifact_prefix="$W/artifacts/" >"$W/run.log" 2>&1 )
E=$(date +%s)
EXECS=$(cat "$W"/fuzz-*.log 2>/dev/null | grep -c "^#" || true)
DONE=$(cat "$W"/fuzz-*.log 2>/dev/null | grep -E "^Done [0-9]+ runs" | awk '{s+=$2} END {print s+0}')
RC=0
NV=0
for a in "$W"/artifacts/*; do
    [ -f "$a" ] || continue
    b=$(basename "$a")
    out="$ROOT/work/replays/C01-fuzz-$b.json"
    "$VP" fuzz-case "$a" "$out" || continue
    if "$VP" replay "$out" >"$W/replay-$b.log" 2>&1; then
        # also the release build
        sed -i 's/"profile": "strict"/"profile": "release"/' "$out"
        if "$VP" replay "$out" >>"$W/replay-$b.log" 2>&1; then
            echo "INCONCLUSIVE: libFuzzer artifact $b does not reproduce through vp replay" >&2
            [ $RC -eq 0 ] && RC=2
            continue
        fi
    fi
    echo "VIOLATION property=C01 replay=$out"
    NV=$((NV+1))
    RC=1
done
CORPUS=$(ls "$W/corpus" | wc -l)
echo "{\"status\":\"ran\",\"engine\":\"libFuzzer via cargo-fuzz (ASan)\",\"executions\":$DONE,\"jobs\":$JOBS,\"runs_per_job\":$RUNS,\"seed\":$SEED,\"corpus_files_at_end\":$CORPUS,\"artifacts\":$(ls "$W/artifacts" | wc -l),\"violations\":$NV,\"wall_s\":$((E-S))}" > "$W/summary.json"
"$VP" evidence-merge "$ROOT/evidence/C01.json" fuzz "$W/summary.json"
echo "C01 fuzz stage: $DONE executions, corpus $CORPUS, $NV violations, $((E-S))s" >&2
exit $RC
