#!/usr/bin/env python3
"""import_seed.py Cxx n 'summary' 'needs' : copies /tmp/seed/Cxx/seeded/n into /verif/seeded/Cxx-n and writes meta.json"""
import json, os, shutil, sys
ROOT = os.path.dirname(os.path.dirname(os.path.abspath(__file__)))
prop, n, summary, needs = sys.argv[1:5]
srcroot = os.environ.get("SEED_ROOT", "/tmp/seed")
off = int(os.environ.get("SEED_OFFSET", "0"))
src = f"{srcroot}/{prop}/seeded/{n}"
dst = os.path.join(ROOT, "seeded", f"{prop}-{int(n)+off}")
if os.path.isdir(dst):
    shutil.rmtree(dst)
shutil.copytree(src, dst, ignore=shutil.ignore_patterns("target", "*.log"))
json.dump({"property": prop, "summary": summary, "needs": needs, "round": 2 if off else 1, "fixture_n": int(n),
           "origin": "independent sub-agent given only the property text and a scratch worktree of /repo"},
          open(os.path.join(dst, "meta.json"), "w"), indent=1)
print(dst, os.listdir(dst))
