#!/bin/sh
# C07 thorough: the same parameter-set differential under the crate's alternative cargo feature
# sets.  Each set is built (strict profile) into its own target directory and runs the quick-size
# C07 case set; its evidence goes to work/feat/<set>/ and a summary is merged into evidence/C07.json.
# exit 0 ok, 1 violation, 2 inconclusive
set -u
ROOT=$(cd "$(dirname "$0")/.." && pwd)
export CARGO_NET_OFFLINE=true VERIF_ROOT="$ROOT"
cd "$ROOT/harness" || exit 2
RC=0
SUM="["
for spec in f_nobitmap:nobitmap f_remhalf:full f_lfu:full f_debug:full f_u64u64:off f_stdhasher:off; do
    F=${spec%%:*}; DM=${spec##*:}
    TD="$ROOT/harness/target-feat/$F"
    mkdir -p "$ROOT/work/feat/$F"
    if ! cargo build --offline --profile strict --no-default-features --features hooks,$F --target-dir "$TD" >"$ROOT/work/feat/$F/build.log" 2>&1; then
        echo "feature set $F does not build: skipped" >&2
        SUM="$SUM{\"set\":\"$F\",\"status\":\"does not build\"},"
        [ $RC -eq 0 ] && RC=2
        continue
    fi
    VP_DECODE=$DM VP_EVIDENCE_DIR="$ROOT/work/feat/$F" "$TD/strict/vp" check C07 quick >"$ROOT/work/feat/$F/out.log" 2>"$ROOT/work/feat/$F/err.log"
    R=$?
    grep '^VIOLATION' "$ROOT/work/feat/$F/out.log" | sed "s/\$/ (cargo feature set $F)/"
    [ $R -eq 1 ] && RC=1
    [ $R -eq 2 ] && [ $RC -eq 0 ] && RC=2
    LAST=$(tail -n 1 "$ROOT/work/feat/$F/err.log" | tr -d '"')
    SUM="$SUM{\"set\":\"$F\",\"decoder\":\"$DM\",\"exit\":$R,\"summary\":\"$LAST\"},"
done
SUM="${SUM%,}]"
echo "$SUM" > "$ROOT/work/feat/summary.json"
"$ROOT/harness/target/release/vp" evidence-merge "$ROOT/evidence/C07.json" feature_sets "$ROOT/work/feat/summary.json"
exit $RC
