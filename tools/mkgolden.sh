#!/bin/sh
# Regenerates /verif/golden from a build of the PINNED commit of /repo.
# The harness is copied to a scratch directory, pointed at a scratch worktree of the pinned commit
# and built without the verif_hooks feature (the pinned tree does not have it).
set -eu
PIN=${1:-4b82afd}
ROOT=$(cd "$(dirname "$0")/.." && pwd)
W=$(mktemp -d /tmp/goldbuild.XXXXXX)
trap 'git -C /repo worktree remove --force "$W/pinned" 2>/dev/null || true; rm -rf "$W"' EXIT
git -C /repo worktree add --detach "$W/pinned" "$PIN" >/dev/null
mkdir -p "$W/harness"
cp -r "$ROOT/harness/src" "$ROOT/harness/Cargo.toml" "$ROOT/harness/Cargo.lock" "$ROOT/harness/.cargo" "$W/harness/"
sed -i "s#path = \"/repo\"#path = \"$W/pinned\"#; s#^hooks = .*#hooks = []#" "$W/harness/Cargo.toml"
( cd "$W/harness" && CARGO_NET_OFFLINE=true cargo build --offline --release --no-default-features --features abys_default 2>&1 | tail -n 3 )
rm -rf "$ROOT/golden"
mkdir -p "$ROOT/golden"
"$W/harness/target/release/vp" mkgolden "$ROOT/golden"
echo "pinned commit: $(git -C /repo rev-parse "$PIN")" > "$ROOT/golden/PINNED.txt"
du -sh "$ROOT/golden"
