#!/bin/sh
# runs every check of a tier on the current tree; prints one line per property
TIER=${1:-quick}
cd "$(dirname "$0")/.." && mkdir -p work
for p in C01 C02 C03 C04 C05 C06 C07 C08 C09 C10 C11 C12 C13 C14 C15 C16 C17 C18; do
    S=$(date +%s)
    ./check $p $TIER > work/out-$p.log 2>&1
    R=$?
    E=$(date +%s)
    echo "$p exit=$R $((E-S))s $(grep -c '^VIOLATION' work/out-$p.log) violations $(grep -c '^KNOWN-FINDING' work/out-$p.log) known | $(tail -n 1 work/out-$p.log | cut -c1-150)"
done
