#!/usr/bin/env python3
"""Sensitivity self-test: applies each hand-made mutant (tools/mutants.py) to a SCRATCH copy of
/repo, confirms it compiles and keeps the 55 tests green, runs the designated check (quick tier) from
a scratch copy of /verif and records whether the check reports it.  Nothing under /repo or
/verif is modified except notes/selftest-results.json.

usage: tools/selftest.py [--only id,id,...] [--prop Cxx] [--all-checks] [--keep] [--seeded] [--fast]
  --fast   re-evaluation of changes that were confirmed before: the 55 tests and the demonstration
           are not run again (their recorded results are carried over from the previous results file)
"""
import json, os, shutil, subprocess, sys, time

ROOT = os.path.dirname(os.path.dirname(os.path.abspath(__file__)))
sys.path.insert(0, os.path.join(ROOT, "tools"))
from mutants import M

SCR = os.environ.get("VP_SELFTEST_DIR", "/tmp/vpseedrun" if "--seeded" in sys.argv else "/tmp/vpmut")
# the harness under test: by default this /verif; VP_SELFTEST_SRC points to another checkout of it
SRC = os.environ.get("VP_SELFTEST_SRC", ROOT)
REPO = os.path.join(SCR, "repo")
VER = os.path.join(SCR, "verif")
ENV = dict(os.environ, CARGO_NET_OFFLINE="true")

def sh(cmd, cwd=None, timeout=3600):
    p = subprocess.run(cmd, shell=True, cwd=cwd, env=ENV, stdout=subprocess.PIPE, stderr=subprocess.STDOUT, timeout=timeout)
    return p.returncode, p.stdout.decode(errors="replace")

def setup():
    if os.path.isdir(REPO):
        sh(f"git -C /repo worktree remove --force {REPO}")
    shutil.rmtree(SCR, ignore_errors=True)
    os.makedirs(SCR)
    rc, out = sh(f"git -C /repo worktree add --detach {REPO} HEAD")
    assert rc == 0, out
    os.makedirs(VER)
    for f in ["check", "known_findings.json", "properties.jsonl"]:
        shutil.copy(os.path.join(SRC, f), os.path.join(VER, f))
    for d in ["golden", "findings", "tools"]:
        shutil.copytree(os.path.join(SRC, d), os.path.join(VER, d))
    os.makedirs(os.path.join(VER, "harness"))
    for f in ["Cargo.toml", "Cargo.lock"]:
        shutil.copy(os.path.join(SRC, "harness", f), os.path.join(VER, "harness", f))
    shutil.copytree(os.path.join(SRC, "harness", "src"), os.path.join(VER, "harness", "src"))
    shutil.copytree(os.path.join(SRC, "harness", ".cargo"), os.path.join(VER, "harness", ".cargo"))
    p = os.path.join(VER, "harness", "Cargo.toml")
    s = open(p).read().replace('path = "/repo"', f'path = "{REPO}"')
    open(p, "w").write(s)
    rc, out = sh("./check build", cwd=VER)
    assert rc == 0, out

def teardown():
    sh(f"git -C /repo worktree remove --force {REPO}")
    shutil.rmtree(SCR, ignore_errors=True)

def apply(mut):
    saved = {}
    for (f, old, new) in mut["edits"]:
        p = os.path.join(REPO, f)
        s = saved.get(p) or open(p).read()
        if p not in saved:
            saved[p] = s
        cur = open(p).read()
        n = cur.count(old)
        if n < 1:
            restore(saved)
            return None, f"pattern not found in {f}: {old[:60]!r}"
        cur = cur.replace(old, new, 1)
        open(p, "w").write(cur)
    return saved, None

def restore(saved):
    if "__patch__" in saved:
        sh("git checkout -- . && git clean -fdq tests seeded", cwd=REPO)
        return
    for p, s in saved.items():
        open(p, "w").write(s)

def load_seeded():
    """independently seeded changes under /verif/seeded/<id>/ (patch.diff, demo.rs, meta.json)"""
    out = []
    d = os.path.join(ROOT, "seeded")
    for name in sorted(os.listdir(d)) if os.path.isdir(d) else []:
        mp = os.path.join(d, name, "meta.json")
        if not os.path.exists(mp):
            continue
        meta = json.load(open(mp))
        out.append({"id": name, "prop": meta["property"], "expect": "detect", "edits": [], "note": meta.get("summary", ""),
                    "patch": os.path.join(d, name, "patch.diff"), "demo": os.path.join(d, name, "demo.rs"), "dir": os.path.join(d, name)})
    return out

def apply_patch(mut):
    rc, out = sh(f"git apply --whitespace=nowarn {mut['patch']}", cwd=REPO)
    if rc != 0:
        return None, "patch does not apply: " + out[:200]
    return {"__patch__": mut["patch"]}, None

def demo_run():
    rc, out = sh("timeout 600 cargo test --offline --test demo 2>&1 | tail -n 40", cwd=REPO, timeout=900)
    res = [l for l in out.splitlines() if l.startswith("test result")]
    ok = bool(res) and all(" 0 failed" in l for l in res)
    return ok, (res[-1] if res else out[-300:])

def main():
    args = sys.argv[1:]
    only = None
    prop = None
    all_checks = "--all-checks" in args
    fast = "--fast" in args
    prevmap = {}
    for pf in (["seeded-results.json", "seeded-results-round3-first.json", "seeded-results-round4-before-widening.json"] if "--seeded" in args else ["selftest-results.json"]):
        pp = os.path.join(ROOT, "notes", pf)
        if os.path.exists(pp):
            for x in json.load(open(pp)):
                if x.get("repo_tests", "").startswith("55 passed, 0") and x["id"] not in prevmap:
                    prevmap[x["id"]] = x
    if "--only" in args:
        only = args[args.index("--only") + 1].split(",")
    if "--prop" in args:
        prop = args[args.index("--prop") + 1]
    setup()
    results = []
    muts = M
    if "--seeded" in args:
        muts = load_seeded()
    try:
        for mut in muts:
            if only and mut["id"] not in only:
                continue
            if prop and mut["prop"] != prop:
                continue
            t0 = time.time()
            if "patch" in mut:
                saved, err = apply_patch(mut)
            else:
                saved, err = apply(mut)
            r = {"id": mut["id"], "prop": mut["prop"], "expect": mut["expect"], "note": mut["note"]}
            if err:
                r["status"] = "BROKEN-MUTANT: " + err
                results.append(r); print(json.dumps(r), flush=True); continue
            if fast and mut["id"] in prevmap and prevmap[mut["id"]].get("repo_tests", "").startswith("55 passed, 0"):
                pr = prevmap[mut["id"]]
                for k in ("repo_tests", "demo_with_change", "demo_without_change"):
                    if k in pr:
                        r[k] = pr[k]
                r["confirmation"] = "carried over from an earlier full run"
                det = {}
                t1 = time.time()
                rc, out = sh(f"./check {mut['prop']} quick", cwd=VER, timeout=7200)
                viol = [l for l in out.splitlines() if l.startswith("VIOLATION")]
                det[mut["prop"]] = {"exit": rc, "violations": len(viol), "s": round(time.time() - t1, 1)}
                msg = [l.strip() for l in out.splitlines() if l.startswith("  case") or l.startswith("  ")][:1]
                r["first_report"] = (msg[0][:300] if msg else "")
                r["checks"] = det
                d = det[mut["prop"]]
                detected = d["exit"] == 1 and d["violations"] > 0
                if mut["expect"] == "detect":
                    r["status"] = "detected" if detected else ("MISSED (exit %d)" % d["exit"])
                else:
                    r["status"] = "silent (ok)" if d["exit"] == 0 else "FALSE ALARM on negative control"
                r["total_s"] = round(time.time() - t0, 1)
                restore(saved)
                results.append(r)
                print(json.dumps(r), flush=True)
                continue
            rc, out = sh("cargo test --workspace --no-fail-fast --offline 2>&1 | grep -E '^test result|error(\\[|:)|FAILED' | head -20", cwd=REPO)
            passed = sum(int(l.split()[3]) for l in out.splitlines() if l.startswith("test result"))
            failed = sum(int(l.split()[5]) for l in out.splitlines() if l.startswith("test result"))
            r["repo_tests"] = f"{passed} passed, {failed} failed"
            if "error" in out and passed == 0:
                r["status"] = "BROKEN-MUTANT: does not compile: " + out[:300]
                restore(saved); results.append(r); print(json.dumps(r), flush=True); continue
            if "demo" in mut and os.path.exists(mut["demo"]):
                shutil.copy(mut["demo"], os.path.join(REPO, "tests", "demo.rs"))
                fx = os.path.join(mut["dir"], "fixture")
                if os.path.isdir(fx):
                    # the demo looks for <crate>/seeded/<n>/fixture
                    n = str(json.load(open(os.path.join(mut["dir"], "meta.json"))).get("fixture_n", mut["id"].split("-")[-1]))
                    dst = os.path.join(REPO, "seeded", n, "fixture")
                    shutil.rmtree(os.path.join(REPO, "seeded"), ignore_errors=True)
                    shutil.copytree(fx, dst)
                ok_with, msg_with = demo_run()
                r["demo_with_change"] = ("PASSES (unexpected)" if ok_with else "fails") + ": " + msg_with[:120]
                sh(f"git apply -R --whitespace=nowarn {mut['patch']}", cwd=REPO)
                ok_wo, msg_wo = demo_run()
                r["demo_without_change"] = ("passes" if ok_wo else "FAILS (unexpected)") + ": " + msg_wo[:120]
                sh(f"git apply --whitespace=nowarn {mut['patch']}", cwd=REPO)
                os.remove(os.path.join(REPO, "tests", "demo.rs"))
            checks = [mut["prop"]]
            if all_checks:
                checks = ["C%02d" % i for i in range(1, 19)]
            det = {}
            for c in checks:
                t1 = time.time()
                rc, out = sh(f"./check {c} quick", cwd=VER, timeout=7200)
                viol = [l for l in out.splitlines() if l.startswith("VIOLATION")]
                det[c] = {"exit": rc, "violations": len(viol), "s": round(time.time() - t1, 1)}
                if c == mut["prop"]:
                    msg = [l.strip() for l in out.splitlines() if l.startswith("  case") or l.startswith("  ")][:1]
                    r["first_report"] = (msg[0][:300] if msg else "")
            r["checks"] = det
            d = det[mut["prop"]]
            detected = d["exit"] == 1 and d["violations"] > 0
            if mut["expect"] == "detect":
                r["status"] = "detected" if detected else ("MISSED (exit %d)" % d["exit"])
            else:
                r["status"] = "silent (ok)" if d["exit"] == 0 else "FALSE ALARM on negative control"
            r["total_s"] = round(time.time() - t0, 1)
            restore(saved)
            results.append(r)
            print(json.dumps(r), flush=True)
    finally:
        if "--keep" not in args:
            teardown()
    os.makedirs(os.path.join(ROOT, "notes"), exist_ok=True)
    outp = os.path.join(ROOT, "notes", os.environ.get("VP_SELFTEST_OUT", "seeded-results.json" if "--seeded" in args else "selftest-results.json"))
    prev = []
    if os.path.exists(outp) and (only or prop):
        prev = [x for x in json.load(open(outp)) if x["id"] not in {r["id"] for r in results}]
    json.dump(prev + results, open(outp, "w"), indent=1)
    bad = [r for r in results if r["status"].startswith(("MISSED", "FALSE", "BROKEN"))]
    print(f"{len(results)} mutants, {len(bad)} need attention")
    for r in bad:
        print("  ", r["id"], r["status"][:200])

if __name__ == "__main__":
    main()
