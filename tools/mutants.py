# Hand-made mutants for the sensitivity self-test (tools/selftest.py).
# Each mutant: id, property whose check must report it, expect ("detect" | "silent" for negative
# controls), list of (file, old, new) textual replacements (old must occur exactly once unless count given).
M = []

def m(id, prop, expect, edits, note=""):
    M.append({"id": id, "prop": prop, "expect": expect, "edits": edits, "note": note})

DBX = "src/filedb/inner/dbxxx.rs"
HTX = "src/filedb/inner/htx.rs"
KEY = "src/filedb/inner/key.rs"
VAL = "src/filedb/inner/val.rs"
PIECE = "src/filedb/inner/piece.rs"
VFILE = "src/filedb/inner/vfile.rs"
LIB = "src/lib.rs"

# ---------------------------------------------------------------- C01
m("c01-no-count-down", "C01", "detect", [(DBX, "            self.htx_file.write_item_count_down()?;\n", "")],
  "delete does not decrement the item count")
m("c01-cmp-prefix8", "C01", "detect", [("src/filedb/dbmap/kt_dbbytes.rs",
   "        self.0.as_slice().cmp(other)\n    }\n}\nimpl HashValue for DbBytes {}",
   "        let n = self.0.len().min(8);\n        if other.len() < n { return std::cmp::Ordering::Greater; }\n        self.0[..n].cmp(&other[..n])\n    }\n}\nimpl HashValue for DbBytes {}")],
  "stored-key comparison looks at the first 8 bytes only")
m("c01-stale-value-offset", "C01", "detect", [(DBX,
   "            key_piece.value_offset = new_value_piece.offset;\n            self.key_file.write_piece(key_piece)?",
   "            key_piece")],
  "moved value record: key record keeps the old value offset")
m("c01-revert-d4-put", "C01", "detect", [(DBX,
   "                _cold();\n                self.relink_moved_key(hash, key_offset, new_key_offset)?;",
   "                unimplemented!(\"key_offset != new_key_offset : in put_kt\");")], "revert the relocation fix (put path)")

# ---------------------------------------------------------------- C02
m("c02-random-hash", "C02", "detect", [(LIB,
   "        let mut hasher = MyHasher::default();",
   "        let mut hasher = MyHasher(std::process::id() as u64 % 7);")],
  "placement hash seeded per process (only a second process sees it)")
m("c02-buckets-from-params", "C02", "detect", [(HTX,
   "            file_nc.buckets_size = file_nc.file.read_hash_buckets_size()?;",
   "            file_nc.buckets_size = match params.buckets_size {\n                HashBucketsParam::BucketsSize(x) => x.next_power_of_two(),\n                HashBucketsParam::Capacity(x) => capacity_to_buckets_size(x),\n                HashBucketsParam::Default => file_nc.file.read_hash_buckets_size()?,\n            };")],
  "bucket count taken from the open parameters instead of the stored header")

# ---------------------------------------------------------------- C03
m("c03-revert-d1", "C03", "detect", [(DBX, "            dirty: true,", "            dirty: false,"),
   (DBX, "    fn put_kt(&mut self, key_kt: &KT, value: &[u8]) -> Result<()> {\n        self.dirty = true;", "    fn put_kt(&mut self, key_kt: &KT, value: &[u8]) -> Result<()> {"),
   (DBX, "    fn del_kt(&mut self, key_kt: &KT) -> Result<Option<Vec<u8>>> {\n        self.dirty = true;", "    fn del_kt(&mut self, key_kt: &KT) -> Result<Option<Vec<u8>>> {")],
  "dirty flag never raised")
m("c03-no-htx-flush", "C03", "detect", [(DBX,
   "            self.key_file.flush()?;\n            self.htx_file.flush()?;\n            // still dirty",
   "            self.key_file.flush()?;\n            // still dirty")], "flush() forgets the table file")
m("c03-htx-syncdata-is-flush", "C03", "detect", [(HTX,
   "    pub fn sync_data(&self) -> Result<()> {\n        let mut locked = RefCell::borrow_mut(&self.0);\n        locked.file.sync_data()",
   "    pub fn sync_data(&self) -> Result<()> {\n        let mut locked = RefCell::borrow_mut(&self.0);\n        locked.file.flush()")],
  "sync_data of the table file only flushes")
m("c03-dirty-cleared-by-flush", "C03", "detect", [(DBX,
   "            // still dirty: the data has reached the OS, but sync_all()/sync_data()\n            // have to synchronize it to storage.\n",
   "            self.dirty = false;\n")], "flush clears the dirty flag so a following sync is skipped")
m("c03-varfile-syncdata-noop", "C03", "detect", [(VFILE,
   "        super::super::verif::record_io(&self.buf_file.name(), \"sync_data\");\n        self.buf_file.sync_data()",
   "        super::super::verif::record_io(&self.buf_file.name(), \"sync_data\");\n        self.buf_file.flush()")],
  "VarFile::sync_data does not call the OS (below the io-trace hook: only strace sees it)")

# ---------------------------------------------------------------- C04
m("c04-revert-d2", "C04", "detect", [(HTX, "                if read_8 {", "                if idx >= 8 * 8 {")], "bitmap scan steps back although nothing was read")
m("c04-revert-d3", "C04", "detect", [(HTX, "idx + 8 < buckets_size {", "idx < buckets_size - 8 {")], "underflow for tables < 8 buckets")
m("c04-no-bit-on-insert", "C04", "detect", [(HTX, "                byte |= 1 << bitmap_bit_idx;", "                byte |= 0;")], "occupancy bit not set on insert")
m("c04-remaining-not-decremented", "C04", "detect", [(DBX,
   "impl<KT: DbMapKeyType> DbXxxIterMut<KT> {", "impl<KT: DbMapKeyType> DbXxxIterMut<KT> {\n    // mutant marker"),
   (DBX, "        let mut htx_inner = RefCell::borrow_mut(&db_map_inner.htx_file.0);\n        if !self.key_offset.is_zero() {\n            self.key_offset = key_inner\n                .read_piece_only_bucket_next_offset(self.key_offset)\n                .unwrap();\n        } else {\n            _cold();\n        }\n        if self.key_offset.is_zero() {\n            let mut key_offset = self.key_offset;\n            let mut buckets_idx = self.buckets_idx;\n            let buckets_size = self.buckets_size;\n            while key_offset.is_zero() && buckets_idx < buckets_size {\n                let (next_idx, offset) = htx_inner\n                    .file\n                    .next_key_piece_offset(buckets_size, buckets_idx)\n                    .unwrap();\n                key_offset = offset;\n                buckets_idx = next_idx;\n            }\n            self.key_offset = key_offset;\n            self.buckets_idx = buckets_idx;\n        }\n        //\n        if self.key_offset.is_zero() || self.remaining_item_count == 0 {\n            _cold();\n            None\n        } else {\n            if self.remaining_item_count > 0 {\n                self.remaining_item_count -= 1;\n            }\n            Some(self.key_offset)\n        }\n    }\n}\n\n// impl trait: Iterator\nimpl<KT: DbMapKeyType> Iterator for DbXxxIterMut<KT> {",
        "        let mut htx_inner = RefCell::borrow_mut(&db_map_inner.htx_file.0);\n        if !self.key_offset.is_zero() {\n            self.key_offset = key_inner\n                .read_piece_only_bucket_next_offset(self.key_offset)\n                .unwrap();\n        } else {\n            _cold();\n        }\n        if self.key_offset.is_zero() {\n            let mut key_offset = self.key_offset;\n            let mut buckets_idx = self.buckets_idx;\n            let buckets_size = self.buckets_size;\n            while key_offset.is_zero() && buckets_idx < buckets_size {\n                let (next_idx, offset) = htx_inner\n                    .file\n                    .next_key_piece_offset(buckets_size, buckets_idx)\n                    .unwrap();\n                key_offset = offset;\n                buckets_idx = next_idx;\n            }\n            self.key_offset = key_offset;\n            self.buckets_idx = buckets_idx;\n        }\n        //\n        if self.key_offset.is_zero() || self.remaining_item_count == 0 {\n            _cold();\n            None\n        } else {\n            if self.remaining_item_count > 1 {\n                self.remaining_item_count -= 1;\n            }\n            Some(self.key_offset)\n        }\n    }\n}\n\n// impl trait: Iterator\nimpl<KT: DbMapKeyType> Iterator for DbXxxIterMut<KT> {")],
  "size_hint stuck at 1 near the end")
m("c04-neg-bit-not-cleared", "C04", "silent", [(HTX, "                byte &= !(1 << bitmap_bit_idx);", "                byte &= !0;")],
  "NEGATIVE CONTROL: occupancy bit not cleared when a bucket empties (harmless: the scan re-checks the head)")

# ---------------------------------------------------------------- C05
m("c05-count-not-up-after-delete", "C05", "detect", [(HTX,
   "        let val = locked.file.read_item_count()?;\n        locked.file.write_item_count(val + 1)",
   "        let val = locked.file.read_item_count()?;\n        let free = locked.file.read_u64_le().unwrap_or(0);\n        let _ = free;\n        locked.file.write_item_count(if val == 3 { val } else { val + 1 })")],
  "stored item count drifts (stuck at 3 once)")
m("c05-shared-value-record", "C05", "detect", [(DBX,
   "            let bucket_next_offset = self.htx_file.read_key_piece_offset(hash)?;\n            let new_val_piece = self.val_file.add_value_piece(value)?;",
   "            let bucket_next_offset = self.htx_file.read_key_piece_offset(hash)?;\n            let new_val_piece = if value.len() == 2 && !bucket_next_offset.is_zero() {\n                let kp = self.key_file.read_piece(bucket_next_offset)?;\n                self.val_file.read_piece(kp.value_offset)?\n            } else {\n                self.val_file.add_value_piece(value)?\n            };")],
  "a new key with a 2-byte value shares the value record of its chain neighbour")
m("c05-stale-link-middle-delete", "C05", "detect", [(DBX,
   "                prev_key_piece.bucket_next_offset = key_piece.bucket_next_offset;",
   "                if !key_piece.bucket_next_offset.is_zero() || prev_key_piece.key.as_bytes().len() != 11 {\n                    prev_key_piece.bucket_next_offset = key_piece.bucket_next_offset;\n                }")],
  "deleting the last element of a chain leaves the predecessor's link (for 11-byte predecessor keys)")

# ---------------------------------------------------------------- C06
m("c06-revert-d5", "C06", "detect", [(VAL,
   "                if new_piece_size < free_piece_size {\n                    new_piece_size = free_piece_size;\n                }",
   "                if new_piece_size < free_piece_size {\n                    new_piece_size = new_piece_size;\n                }")],
  "large free slot reused with the smaller size (tail stranded) in the value file")
m("c06-delete-keeps-value-slot", "C06", "detect", [(DBX, "            self.val_file.delete_piece(key_piece.value_offset)?;\n", "")],
  "delete does not free the value slot")
m("c06-free-wrong-list", "C06", "detect", [(PIECE,
   "        for i in 0..self.size_ary.len() {\n            if self.size_ary[i] == piece_size {\n                return self.free_list_offset[i];",
   "        for i in 0..self.size_ary.len() {\n            if self.size_ary[i] == piece_size {\n                return self.free_list_offset[if i == 3 { 4 } else { i }];")],
  "48-byte slots are pushed on (and popped from) the 64-byte class list")
m("c06-no-reuse-class-24", "C06", "detect", [(PIECE,
   "        let free_1st = self.read_free_piece_offset_on_header(new_piece_size)?;\n        if !new_piece_size.is_large_piece_size(&self.piece_mgr) {\n            if !free_1st.is_zero() {",
   "        let free_1st = self.read_free_piece_offset_on_header(new_piece_size)?;\n        if !new_piece_size.is_large_piece_size(&self.piece_mgr) {\n            if new_piece_size.as_value() == 24 {\n                return Ok(PieceOffset::<T>::new(0));\n            }\n            if !free_1st.is_zero() {")],
  "free 24-byte slots are never reused (file grows although free slots exist)")
m("c06-neg-roundup-next-class", "C06", "silent", [(PIECE,
   "            if piece_size <= n_sz {\n                return PieceSize::<T>::new(n_sz);",
   "            if piece_size < n_sz {\n                return PieceSize::<T>::new(n_sz);")],
  "NEGATIVE CONTROL: an exact fit is rounded up to the next class (wasteful but correct)")

# ---------------------------------------------------------------- C07
m("c07-revert-d6a-val", "C07", "detect", [(VAL, "(val / dat_buf_chunk_size).max(2);", "val / dat_buf_chunk_size;")], "Size(x) below two chunks for the value file")
m("c07-capacity-no-min8", "C07", "detect", [(HTX, "    if cap < 8 {\n        return 8;\n    }\n", "")], "Capacity(c<8) gives tables below 8 buckets... with a broken bitmap creation")
m("c07-buckets-from-params", "C07", "detect", [(HTX,
   "            file_nc.buckets_size = file_nc.file.read_hash_buckets_size()?;",
   "            file_nc.buckets_size = match params.buckets_size {\n                HashBucketsParam::BucketsSize(x) => x.next_power_of_two(),\n                HashBucketsParam::Capacity(x) => capacity_to_buckets_size(x),\n                HashBucketsParam::Default => file_nc.file.read_hash_buckets_size()?,\n            };")],
  "bucket count from the open parameters")

# ---------------------------------------------------------------- C08
m("c08-revert-d4-del", "C08", "detect", [(DBX,
   "                    self.relink_moved_key(hash, _prev_key_offset, new_prev_key.offset)?;",
   "                    panic!(\"_prev_key_offset != new_prev_key_offset : in del_kt\");")], "revert the relocation fix (delete path)")
m("c08-relink-always-head", "C08", "detect", [(DBX,
   "            if head == old_offset {\n                return self.htx_file.write_key_piece_offset(hash, new_offset);\n            }",
   "            if head == old_offset || new_offset.as_value() % 64 == 0 {\n                return self.htx_file.write_key_piece_offset(hash, new_offset);\n            }")],
  "relink writes the bucket head although the moved record is in the middle (for some offsets)")
m("c08-no-cascade", "C08", "detect", [(DBX,
   "            // the predecessor was also moved, go on.\n            old_offset = prev_offset;\n            new_offset = new_prev_piece.offset;",
   "            // the predecessor was also moved\n            let _ = (prev_offset, new_prev_piece.offset);\n            return Ok(());")],
  "predecessor cascade dropped")

# ---------------------------------------------------------------- C09
m("c09-estimate-without-size-field", "C09", "detect", [(VAL,
   "            .roundup(ValuePieceSize::new(encorded_piece_len + piece_len));\n        //\n        if !is_new {",
   "            .roundup(ValuePieceSize::new(piece_len));\n        //\n        if !is_new {")],
  "slot size estimate forgets the size field (write path only: the arithmetic hook does not see it)")
m("c09-roundup-off-by-one", "C09", "detect", [(PIECE, "            if piece_size <= n_sz {", "            if piece_size - 1 <= n_sz {")], "round-up accepts a class one byte too small")
m("c09-neg-large-round-127", "C09", "silent", [(PIECE, "((piece_size + 128) / 128) * 128", "((piece_size + 127) / 128) * 128")],
  "NEGATIVE CONTROL (found to be equivalent by the first self-test run): large rounding without the spare byte; the size-field estimate alone is exact enough, every record still fits (exhaustive sweep). It only breaks together with a second change (seeded change C01-2)")
m("c09-key-estimate-len-field", "C09", "detect", [(KEY,
   "            let enc_key_len = vu64::encoded_len(key_len.as_value() as u64) as u32;",
   "            let enc_key_len = 1u32;")], "key length field assumed to be one byte")

# ---------------------------------------------------------------- C10
m("c10-be-in-from-ref", "C10", "detect", [("src/filedb/dbmap/kt_dbu64.rs",
   "impl From<&u64> for DbU64 {\n    #[inline]\n    fn from(a: &u64) -> Self {\n        DbU64(a.to_le_bytes().to_vec())",
   "impl From<&u64> for DbU64 {\n    #[inline]\n    fn from(a: &u64) -> Self {\n        DbU64(a.to_be_bytes().to_vec())")], "by-reference conversion uses big endian")
m("c10-i64-via-u32", "C10", "detect", [("src/filedb/dbmap/kt_dbi64.rs",
   "        i64::from_le_bytes(a)", "        if a[4..] == [0xFFu8; 4] { i64::from_le_bytes(a) } else { u32::from_le_bytes([a[0], a[1], a[2], a[3]]) as i64 | ((a[4] as i64) << 32) }")],
  "i64 back-conversion drops bytes 5..8 for positive numbers")
m("c10-vu64-cmp-bytes-prefix", "C10", "detect", [("src/filedb/dbmap/kt_dbvu64.rs",
   "        let my: u64 = vu64::decode(self.0.as_slice()).unwrap();\n        let other: u64 = vu64::decode(other).unwrap();\n        my.cmp(&other)",
   "        let n = self.0.len().min(other.len()).min(4);\n        self.0[..n].cmp(&other[..n])")], "vu64 key comparison looks at the first 4 bytes")

# ---------------------------------------------------------------- C11
m("c11-name-trim-digits", "C11", "detect", [(KEY, "pb.push(format!(\"{ks_name}.key\"));", "pb.push(format!(\"{}.key\", ks_name.trim_end_matches('0')));")],
  "key file name drops trailing zeros (m1 and m10 share a file)")
m("c11-clone-reopens", "C11", "detect", [("src/filedb/inner/mod.rs",
   "    pub fn db_map_bytes(&self, name: &str) -> Option<FileDbMapDbBytes> {\n        self.db_bytes_map.get(name).cloned()",
   "    pub fn db_map_bytes(&self, name: &str) -> Option<FileDbMapDbBytes> {\n        if name.len() == 2 {\n            return FileDbMapDbBytes::open(self.path(), name, FileDbParams::default()).ok();\n        }\n        self.db_bytes_map.get(name).cloned()")],
  "re-acquiring a bytes map with a 2-letter name opens the files a second time instead of sharing the state")

# ---------------------------------------------------------------- C12
m("c12-hash-shift", "C12", "detect", [(LIB, "        x ^= x >> 12;\n        x ^= x << 25;", "        x ^= x >> 12;\n        x ^= x << 24;")], "placement hash constant changed")
m("c12-hash-le", "C12", "detect", [(LIB, "                let a = u64::from_be_bytes(ary);", "                let a = u64::from_le_bytes(ary);")], "placement hash reads words little endian")
m("c12-offsets-div4", "C12", "detect", [(VFILE,
   "        debug_assert!(v % 8 == 0);\n        self._write_vu64_u64(v / 8)\n    }",
   "        debug_assert!(v % 8 == 0);\n        self._write_vu64_u64(v / 4)\n    }"),
   (VFILE, "        self._read_vu64_u64().map(|v| PieceOffset::<T>::new(v * 8))", "        self._read_vu64_u64().map(|v| PieceOffset::<T>::new(v * 4))")],
  "offsets stored /4 instead of /8")
m("c12-count-at-32", "C12", "detect", [(HTX, "const HTX_ITEM_COUNT_OFFSET: u64 = 24;", "const HTX_ITEM_COUNT_OFFSET: u64 = 32;")], "item count moved to header offset 32")
m("c12-key-magic", "C12", "detect", [(KEY, "[b'a', b'b', b'y', b's', b'd', b'b', b'K', 0u8];", "[b'a', b'b', b'y', b's', b'd', b'b', b'k', 0u8];")], "key file magic changed")

# ---------------------------------------------------------------- C13
m("c13-no-sig2-val", "C13", "detect", [(VAL,
   "    assert!(\n        sig2 == signature2,\n        \"invalid header signature2, type signature: {sig2:?}\",\n    );", "    let _ = signature2;")],
  "type signature of the value file not checked")
m("c13-sig1-prefix6", "C13", "detect", [(KEY, "    assert!(sig1 == DAT_HEADER_SIGNATURE, \"invalid header signature1\");",
   "    assert!(sig1[..6] == DAT_HEADER_SIGNATURE[..6], \"invalid header signature1\");")], "only 6 bytes of the key file magic compared")
m("c13-htx-sig2-first4", "C13", "detect", [(HTX, "        sig2 == signature2,\n        \"invalid header signature2, type signature: {sig2:?}\"",
   "        sig2[..4] == signature2[..4],\n        \"invalid header signature2, type signature: {sig2:?}\"")], "only 4 bytes of the table file's type signature compared")

# ---------------------------------------------------------------- C14
m("c14-bulk-get-no-resort", "C14", "detect", [(LIB,
   "            let result_value = self.get(ik.1)?;\n            result.push((ik.0, result_value));\n        }\n        result.sort_by(|a, b| a.0.cmp(&(b.0)));",
   "            let result_value = self.get(ik.1)?;\n            result.push((ik.0, result_value));\n        }")], "bulk_get returns results in sorted-key order")
m("c14-bulk-delete-no-resort", "C14", "detect", [(LIB,
   "            let result_value = self.delete(ik.1)?;\n            result.push((ik.0, result_value));\n        }\n        result.sort_by(|a, b| a.0.cmp(&(b.0)));",
   "            let result_value = self.delete(ik.1)?;\n            result.push((ik.0, result_value));\n        }")], "bulk_delete returns results in sorted-key order")
m("c14-bulk-put-string-debug", "C14", "detect", [(LIB, "            self.put(kv.0, kv.1.as_bytes())?;\n        }\n        Ok(())\n    }\n\n    /// removes a key from the db.",
   "            self.put(kv.0, format!(\"{:?}\", kv.1).as_bytes())?;\n        }\n        Ok(())\n    }\n\n    /// removes a key from the db.")], "bulk_put_string stores the Debug form")
m("c14-from-iter-btreemap", "C14", "detect", [(LIB,
   "        for (key, value) in iter {\n            self.put_kt(&key, &value)?;\n        }",
   "        let mut m = std::collections::BTreeMap::new();\n        for (key, value) in iter {\n            m.entry(key).or_insert(value);\n        }\n        for (key, value) in m {\n            self.put_kt(&key, &value)?;\n        }")], "put_from_iter: first one wins instead of last")
m("c14-neg-bulk-put-desc", "C14", "silent", [(LIB, "        vec.sort_by(|a, b| b.0.cmp(a.0));\n        while let Some(kv) = vec.pop() {\n            self.put(kv.0, kv.1)?;",
   "        vec.sort_by(|a, b| a.0.cmp(b.0));\n        while let Some(kv) = vec.pop() {\n            self.put(kv.0, kv.1)?;")],
  "NEGATIVE CONTROL: bulk_put applies the batch in descending key order (unobservable without repeated keys)")

# ---------------------------------------------------------------- C15
m("c15-get-extends-file", "C15", "detect", [(DBX,
   "        } else {\n            _cold();\n            Ok(None)\n        }\n    }\n    #[inline]\n    fn put_kt",
   "        } else {\n            _cold();\n            let end: KeyPieceOffset = self.key_file.0.borrow_mut().0.seek_to_end()?;\n            let _ = self.key_file.0.borrow_mut().0.seek_from_start(KeyPieceOffset::new(end.as_value() + 8))?;\n            Ok(None)\n        }\n    }\n    #[inline]\n    fn put_kt")],
  "lookup of an absent key seeks past the end of the key file (extends it)")
m("c15-iter-writes-count", "C15", "detect", [(DBX,
   "        let (buckets_size, remaining_item_count) = {\n            let db_map_inner = RefCell::borrow(&db_map);\n            (\n                db_map_inner.htx_file.read_hash_buckets_size()?,\n                db_map_inner.htx_file.read_item_count()?,\n            )\n        };",
   "        let (buckets_size, remaining_item_count) = {\n            let db_map_inner = RefCell::borrow(&db_map);\n            let n = db_map_inner.htx_file.read_item_count()?;\n            db_map_inner.htx_file.0.borrow_mut().file.seek_from_start(NodePieceOffset::new(40))?;\n            rabuf::SmallWrite::write_u64_le(&mut db_map_inner.htx_file.0.borrow_mut().file, n)?;\n            (\n                db_map_inner.htx_file.read_hash_buckets_size()?,\n                n,\n            )\n        };")],
  "creating an iterator writes the item count into a reserved header word")

# ---------------------------------------------------------------- C16
m("c16-swallow-key-flush-error", "C16", "detect", [(DBX,
   "            self.val_file.flush()?;\n            self.key_file.flush()?;\n            self.htx_file.flush()?;\n            // still dirty",
   "            self.val_file.flush()?;\n            let _ = self.key_file.flush();\n            self.htx_file.flush()?;\n            // still dirty")], "flush swallows the key file's error")
m("c16-sync-clears-dirty-first", "C16", "detect", [(DBX,
   "            // save all data and meta\n            self.val_file.sync_all()?;",
   "            // save all data and meta\n            self.dirty = false;\n            self.val_file.sync_all()?;"),
   (DBX, "            self.htx_file.sync_all()?;\n            self.dirty = false;", "            self.htx_file.sync_all()?;")],
  "sync_all clears the dirty flag before the writes succeeded")

# ---------------------------------------------------------------- C17
m("c17-free-count-plus-one", "C17", "detect", [(PIECE, "        let mut count = 0;\n        let free_1st = self.read_free_piece_offset_on_header(new_piece_size)?;\n        if !free_1st.is_zero() {",
   "        let mut count = 0;\n        let free_1st = self.read_free_piece_offset_on_header(new_piece_size)?;\n        if !free_1st.is_zero() {\n            count += 1;")], "free-slot count starts at 1 for non-empty lists")
m("c17-length-hist-counts-all", "C17", "detect", [(DBX,
   "            let length = self.load_value_length(value_piece_offset)?;\n            if !length.is_zero() {\n                length_vec.touch_length(length);\n            }",
   "            let length = self.load_value_length(value_piece_offset)?;\n            length_vec.touch_length(length);")], "value length histogram counts free and empty slots")
m("c17-filling-n-minus-1", "C17", "detect", [(HTX, "        for idx in 0..buckets_size {\n            let offset = locked.file.read_key_piece_offset(idx)?;",
   "        for idx in 0..buckets_size - 1 {\n            let offset = locked.file.read_key_piece_offset(idx)?;")], "bucket fill scan skips the last bucket")

# ---------------------------------------------------------------- C18
m("c18-hash-pid", "C18", "detect", [(LIB,
   "        let mut hasher = MyHasher::default();",
   "        let mut hasher = MyHasher(std::process::id() as u64 % 7);")], "placement depends on the process id")
m("c18-header-pid", "C18", "detect", [(VAL, "    // reserve1\n    file.write_u64_le(0)?;\n    // free1 .. reserve2\n    file.write_all(&[0u8; 160])?;",
   "    // reserve1\n    file.write_u64_le(std::process::id() as u64)?;\n    // free1 .. reserve2\n    file.write_all(&[0u8; 160])?;")], "reserved header word of the value file filled from the process id")
m("c18-read-extends", "C18", "detect", [(DBX,
   "        } else {\n            _cold();\n            Ok(None)\n        }\n    }\n    #[inline]\n    fn put_kt",
   "        } else {\n            _cold();\n            let end: KeyPieceOffset = self.key_file.0.borrow_mut().0.seek_to_end()?;\n            let _ = self.key_file.0.borrow_mut().0.seek_from_start(KeyPieceOffset::new(end.as_value() + 8))?;\n            Ok(None)\n        }\n    }\n    #[inline]\n    fn put_kt")],
  "a read path extends a file")
