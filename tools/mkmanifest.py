#!/usr/bin/env python3
"""Regenerates /verif/MANIFEST.json from the table below (run from /verif)."""
import json, subprocess, sys
ROOT = __import__('os').path.dirname(__import__('os').path.dirname(__import__('os').path.abspath(__file__)))
props = [json.loads(l) for l in open(ROOT + '/properties.jsonl')]
# id -> (level, technique, level text, level note)
T = "trusted: the harness (model, interpreter, independent decoder), proptest, tmpfs scratch; single machine / toolchain"
DONE = {
 "C01": ("exploration", "model-based random call histories (proptest) + bounded-exhaustive short sequences, BTreeMap oracle",
         "thousands of generated call histories per run on all key types, every return value compared with a reference model, final independent decode; hangs/aborts via watchdog + isolated re-runs. Search, not proof."),
 "C02": ("exploration", "model-based random histories with generated close/reopen points and parameters, in-process and spawned-process reopen",
         "every reopen is compared with the model (all keys, absent keys, len, iteration); a second process recomputes a digest of the directory."),
 "C03": ("fault_enumeration", "every flush/sync call of generated histories is a crash point: snapshot + independent decode + reopen vs model; io-trace / strace of OS sync requests; SIGKILL of a writer process at a generated sync point; injected write refusal (RLIMIT_FSIZE) followed by a sync that returns Ok",
         "each successful flush/sync in each generated history is treated as a crash: the bytes on disk at that moment must decode and open to the model state; OS sync requests are observed through the io-trace hook."),
 "C04": ("exploration", "generated map states x table sizes x 7 iterator flavours with hash-targeted bucket occupancy, multiset oracle",
         "traversals over generated states on 19 table sizes with keys aimed at the bitmap-scan edges; exact multiset, size_hint and fused-end checks."),
 "C05": ("exploration", "generated histories, independent on-disk decoder as oracle (structure predicate + contents == model)",
         "the files are decoded by a reader that shares no code with the crate at every close, sync point and (20%) every call."),
 "C06": ("exploration", "generated histories and cyclic workloads with decode after every call: tiling, free-list membership, extend-only rule, per-size slot bound",
         "per-call invariants on the decoded slot tiling and free lists plus a size bound derived from observed peaks."),
 "C07": ("exploration", "differential execution of one generated history under k generated parameter sets against one model; reopen under foreign parameters",
         "each history runs under 4 (10) parameter sets incl. tiny tables and minimal buffers; all must agree with the model and the stored table size must survive reopen."),
 "C08": ("exploration", "bounded-exhaustive breadth-first enumeration of on-disk images over a small colliding alphabet from seeded images at offset-width boundaries, plus seeded random deep walks; model + independent decoder at every transition; model-based random single-session histories on colliding keys observed through the files only",
         "systematic state-space exploration of the image graph around the 16 KiB (2 MiB) offset-width boundaries; exhaustive only where the evidence says the graph was closed under the cap."),
 "C09": ("exploration", "exhaustive length sweep of the crate's slot-size arithmetic through the layout-probe hook + end-to-end sentinel sweep over lengths",
         "the arithmetic part enumerates every value length up to 16 MiB+64 KiB and every key length up to 64 KiB x offset widths (complete); the end-to-end part stores ~9000 lengths between sentinels."),
 "C10": ("exploration", "boundary-biased generated integers / byte strings; round-trip, by-value == by-ref, equality <=> same entry; model-based random sessions on typed maps; thousands of short keys recovered through the iterators",
         "hundreds of thousands of integer pairs at every encoding boundary plus typed maps and prefix/NUL/non-UTF-8 key families."),
 "C11": ("exploration", "model-based interleaved histories over 2-5 maps with generated handle churn; one model per map; byte comparison of the other maps' files",
         "generated interleavings over several maps and handles, cross-talk observed on the raw files."),
 "C12": ("exploration", "committed golden images written by the pinned commit: independent decode vs expected contents and placement, open under the current build, byte comparison, random continuation histories",
         "15 golden images from the pinned release are decoded, opened, re-written and continued by generated histories."),
 "C13": ("exploration", "enumeration of type pairs x file position and of single-byte signature mutations; open must be refused and files unchanged",
         "all ordered type pairs x 4 positions and all 16 signature bytes x 3 files x 5 types (thorough: all 255 values, exhaustive)."),
 "C15": ("exploration", "generated read-only sessions on generated closed states and on golden images of the released version; results vs model and files byte-identical before/after",
         "generated read-only call sequences on states from generated histories; raw bytes compared."),
 "C16": ("fault_enumeration", "RLIMIT_FSIZE write refusals injected in a child process at every buffer-chunk boundary threshold; recovery and durability oracle",
         "each threshold between 'nothing fits' and 'everything fits' for three workload shapes x flush/sync_data/sync_all is injected; error reporting, in-memory view and recovery are checked."),
 "C18": ("exploration", "each generated update history executed twice (second run in a spawned process, other directory, read-only calls spliced in); byte comparison of the files",
         "differential comparison of two executions of the same update history."),
 "C14": ("exploration", "generated batches inside model-based histories; element-wise model results as oracle",
         "position-wise comparison of every bulk call with the element-wise model, state comparison after every writing batch."),
 "C17": ("exploration", "generated histories; every statistics figure recomputed from the independent decoder after every call",
         "all CheckFileDbMap figures are compared with figures derived from the decoded files."),
}
m = {"version": 1,
 "setup_cmd": "./check build",
 "hooks": {"guard": "cargo feature verif_hooks (abyssiniandb)",
           "enable": "the harness crate depends on abyssiniandb by path (/repo) with features = [\"verif_hooks\"]; every ./check invocation runs cargo build first, so the harness is rebuilt from /repo's working tree",
           "baseline_off_cmd": "cd /repo && cargo test --workspace --no-fail-fast --offline",
           "source_commits": ["8857db9", "bb7d8e0"], "add_only": True},
 "engines": [{"name": "vp", "path": "harness", "serves_properties": sorted(DONE.keys()),
              "kind_free_text": "Rust harness (lib vpcore + bin vp): proptest strategies -> call histories -> interpreter against the real crate and a BTreeMap model; independent decoder of the on-disk format; worker processes under a watchdog; two build profiles (release, strict = debug assertions + overflow checks)"}],
 "checks": [], "not_applicable": [],
 "notes": "exit 0 = held on everything explored; exit 1 + VIOLATION line = violation; exit 2 = inconclusive (hang not reproduced, scratch trouble) - never a VIOLATION line. Known findings: known_findings.json. VERIF_SEED selects the case set."}
for p in props:
    i = p['id']
    if i in DONE:
        lvl, tech, text = DONE[i]
        m["checks"].append({"property_id": i, "quick_cmd": f"./check {i} quick", "thorough_cmd": f"./check {i} thorough",
            "evidence_file": f"evidence/{i}.json", "replay_cmd_template": "./check replay {path}", "engine": "vp",
            "level_claimed": {"category": lvl, "text": text, "design_ref": "DESIGN.md section 4, " + i},
            "level_note": T, "technique": tech})
    else:
        m["not_applicable"].append({"property_id": i, "reason": "check under construction in this session (same technique, see DESIGN.md section 4)"})
json.dump(m, open(ROOT + '/MANIFEST.json', 'w'), indent=1)
print("checks:", len(m["checks"]), "not_applicable:", len(m["not_applicable"]))
