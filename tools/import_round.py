#!/usr/bin/env python3
"""import_round.py <seed root> <id offset> <round>: imports every <root>/Cxx/seeded/{1,2} into /verif/seeded/Cxx-(n+offset);
summary = first paragraph of notes.md (edit meta.json afterwards if needed)."""
import json, os, re, shutil, sys
ROOT = os.path.dirname(os.path.dirname(os.path.abspath(__file__)))
root, off, rnd = sys.argv[1], int(sys.argv[2]), int(sys.argv[3])
for prop in sorted(os.listdir(root)):
    d = os.path.join(root, prop, "seeded")
    if not os.path.isdir(d):
        continue
    for n in ("1", "2"):
        src = os.path.join(d, n)
        if not os.path.exists(os.path.join(src, "patch.diff")):
            continue
        dst = os.path.join(ROOT, "seeded", f"{prop}-{int(n)+off}")
        if os.path.isdir(dst):
            shutil.rmtree(dst)
        shutil.copytree(src, dst, ignore=shutil.ignore_patterns("target", "*.log"))
        notes = ""
        np = os.path.join(src, "notes.md")
        if os.path.exists(np):
            notes = open(np, errors="replace").read()
        paras = [p.strip() for p in re.split(r"\n\s*\n", notes) if p.strip() and not p.strip().startswith("#")]
        summary = re.sub(r"\s+", " ", paras[0])[:400] if paras else ""
        needs = ""
        for p in paras:
            if re.match(r"(?i)\**trigger", p) or re.search(r"(?i)trigger|needs|manifest", p):
                needs = re.sub(r"\s+", " ", p)[:400]
                break
        json.dump({"property": prop, "summary": summary, "needs": needs, "round": rnd, "fixture_n": int(n),
                   "origin": "independent sub-agent given only the property text (plus the list of bug themes already used up) and a scratch worktree of /repo"},
                  open(os.path.join(dst, "meta.json"), "w"), indent=1)
        print(dst)
